"""Verdict bookkeeping shared by all checks: violations, known findings, evidence, replay files."""
import hashlib
import json
import os
import re
import time

ROOT = os.path.dirname(os.path.dirname(os.path.abspath(__file__)))
# FV_EVIDENCE_DIR: runs against a deliberately changed tree (tools/seedtest.py, tools/seed_official.sh) must not
# overwrite the evidence of the unchanged tree
EVIDENCE_DIR = os.environ.get("FV_EVIDENCE_DIR") or os.path.join(ROOT, "evidence")
REPLAY_DIR = os.path.join(ROOT, "replays")
FINDINGS_FILE = os.path.join(ROOT, "known_findings.json")


def load_findings(prop):
    if not os.path.exists(FINDINGS_FILE):
        return []
    with open(FINDINGS_FILE, encoding="utf-8") as fh:
        doc = json.load(fh)
    return [f for f in doc.get("findings", []) if f.get("property") == prop and f.get("status") == "open"]


def _matches(finding, sig):
    """A finding matches a violation signature when every key of its `match` object matches:
    strings are regular expressions (fullmatch) against str(sig[key]); other values by equality."""
    for k, want in finding.get("match", {}).items():
        if k not in sig:
            return False
        have = sig[k]
        if isinstance(want, str):
            if re.fullmatch(want, str(have), flags=re.S) is None:
                return False
        elif want != have:
            return False
    return True


class Report:
    """Collects what a run explored and found; writes evidence and replay files.

    sig (signature) of a violation: a flat dict (clause, site, input class ...) that known
    findings are matched against.  A violation is reported as KNOWN-FINDING only if an open
    entry of known_findings.json matches its signature; the file is never written here.
    """

    def __init__(self, prop, tier, seed):
        self.prop = prop
        self.tier = tier
        self.seed = seed
        self.t0 = time.time()
        self.findings = load_findings(prop)
        self.violations = []  # (sig, case)
        self.known = {}  # finding id -> [count, first case]
        self.cov = {
            "states": 0,
            "transitions": 0,
            "traces_validated_against_impl": 0,
            "evaluations": 0,
            "samples": [],
            "tlc_runs": [],
            "impl_drift": 0,
            "out_of_domain": 0,
        }
        self.nontrivial = set()
        self.assumptions = []
        self.rule = ""
        self.exhaustive = None
        self.notes = {}

    # ---- coverage -------------------------------------------------------------------
    def add_tlc(self, name, res):
        self.cov["states"] += res.distinct
        self.cov["transitions"] += res.transitions
        self.cov["tlc_runs"].append(
            {
                "name": name,
                "distinct_states": res.distinct,
                "states_generated": res.generated,
                "depth": res.depth,
                "wall_s": round(res.wall, 2),
            }
        )

    def sample(self, obj, limit=6):
        if len(self.cov["samples"]) < limit:
            self.cov["samples"].append(obj)

    def count(self, key, n=1):
        self.cov[key] = self.cov.get(key, 0) + n

    def nontrivial_key(self, key):
        self.nontrivial.add(key if isinstance(key, (str, int, tuple)) else json.dumps(key, sort_keys=True))

    # ---- verdicts -------------------------------------------------------------------
    def violation(self, sig, case):
        for f in self.findings:
            if _matches(f, sig):
                ent = self.known.setdefault(f["id"], [0, case, f])
                ent[0] += 1
                return False
        self.violations.append((sig, case))
        return True

    def finish(self, level="model_checking"):
        wall = time.time() - self.t0
        os.makedirs(EVIDENCE_DIR, exist_ok=True)
        lines = []
        for fid, (n, case, f) in sorted(self.known.items()):
            lines.append(f"KNOWN-FINDING: property={self.prop} {fid}: {f.get('what', '')} ({n} cases)")
        replay_paths = []
        # group violations by signature so that one defect gives one line
        seen = {}
        for sig, case in self.violations:
            key = json.dumps(sig, sort_keys=True, default=str)
            if key in seen:
                seen[key][2] += 1
                continue
            seen[key] = [sig, case, 1]
        for key, (sig, case, n) in list(seen.items())[:25]:
            h = hashlib.sha1(key.encode()).hexdigest()[:12]
            d = os.path.join(REPLAY_DIR, self.prop)
            os.makedirs(d, exist_ok=True)
            path = os.path.join(d, h + ".json")
            with open(path, "w", encoding="utf-8") as fh:
                json.dump({"property": self.prop, "signature": sig, "count": n, "case": case}, fh, indent=1, default=str)
            replay_paths.append(path)
            lines.append(f"VIOLATION property={self.prop} replay={path}")
            lines.append(f"  clause={sig.get('clause')} count={n} sig={json.dumps(sig, default=str)[:300]}")
        cov = dict(self.cov)
        cov["distinct_nontrivial"] = len(self.nontrivial)
        cov["rule"] = self.rule
        if self.exhaustive is not None:
            cov["exhaustive"] = self.exhaustive
        cov["known_findings_hit"] = {k: v[0] for k, v in self.known.items()}
        cov["trusted_base"] = [
            "TLC 1.8 (tla2tools.jar) and the CommunityModules Json/CSV/IOUtils overrides",
            "fv/project.py abstraction functions and fv/render.py",
            "numpy integer arithmetic",
        ]
        cov.update(self.notes)
        if cov["states"] < 1:
            cov["states"] = 0
        ev = {
            "property_id": self.prop,
            "tier": self.tier,
            "seed": int(self.seed),
            "level": level,
            "coverage": cov,
            "assumptions": self.assumptions,
            "wall_s": round(wall, 2),
            "violations": len(seen),
        }
        with open(os.path.join(EVIDENCE_DIR, self.prop + ".json"), "w", encoding="utf-8") as fh:
            json.dump(ev, fh, indent=1, default=str)
        for l in lines:
            print(l)
        print(
            f"[{self.prop}] tier={self.tier} seed={self.seed} states={cov['states']} "
            f"evaluations={cov['evaluations']} traces={cov['traces_validated_against_impl']} "
            f"violations={len(seen)} known={sum(v[0] for v in self.known.values())} wall={wall:.1f}s"
        )
        return 1 if seen else 0
