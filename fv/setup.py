"""MANIFEST.setup_cmd: nothing is compiled or downloaded; parse every TLA+ module with SANY so
that a broken restore is noticed before the first check."""
import glob
import os
import sys

from fv import tlc


def main():
    bad = 0
    mods = sorted(os.path.basename(p)[:-4] for p in glob.glob(os.path.join(tlc.SPEC_DIR, "*.tla")))
    for m in mods:
        ok, out = tlc.sany(m)
        print(("ok   " if ok else "FAIL ") + m)
        if not ok:
            print(out[-2000:])
            bad += 1
    try:
        sys.path.insert(0, "/repo")
        import formulae  # noqa: F401  pylint: disable=unused-import
    except Exception as e:  # pylint: disable=broad-except
        print("cannot import formulae from /repo:", e)
        bad += 1
    sys.exit(1 if bad else 0)


if __name__ == "__main__":
    main()
