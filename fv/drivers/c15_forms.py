"""Response forms of C15: subset notation, prop, predictor independence, refusals."""
import random

import numpy as np
import pandas as pd

from fv import common, design, design_trace, gen, rows


def _resp_part(dm, labels):
    a = np.asarray(dm.response.design_matrix)
    return {"labels": labels, "data": design.to_int_matrix(a), "slices": [[0, len(labels)]], "tcomps": [["resp"]]}


def _events(args):
    idx, seed = args
    rng = random.Random((seed * 6151 + idx) & 0xFFFFFFFF)
    w = gen.gen_world(rng, nmin=4, nmax=14)
    out = []
    rhs_text, used, _ = gen.gen_formula(rng, groups=rng.random() < 0.4, max_terms=2, resp="")
    kind = rng.choice(["subset", "subset", "prop", "swap", "refuse", "noresp"])
    base = {"id": idx, "frame": {"n": w.n, "cols": w.cols}, "policy": "drop", "views": True, "common": dict(gen.EMPTY), "group": dict(gen.EMPTY)}
    if kind == "subset":
        v = rng.choice(["f", "g", "h", "o", "kcat"])
        code = rng.randint(1, len(w.names[v]))
        lvl = w.names[v][code - 1]
        absent = rng.random()
        if v == "kcat":
            # integer classes: the quoted text '3' is not the integer 3 - no row equals it
            code, absent = len(w.names[v]) + 1, 1.0
        if absent < 0.12:
            # a level that never occurs: the column is all zero
            code, lvl = len(w.names[v]) + 1, rng.choice(["zzz", "zzz", ""])   # also the empty string (quoted: y[''])
            if rng.random() < 0.5 and isinstance(w.df[v].dtype, pd.CategoricalDtype) and not w.df[v].dtype.ordered:
                w.df[v] = w.df[v].cat.add_categories(["zzz"])   # ... or is a declared but unobserved category
        elif absent < 0.3 and sum(1 for c in w.cols[v]["v"] if c != code) >= 1:
            # the level occurs only on rows that are dropped because another used variable is missing there
            for r in range(w.n):
                if w.cols[v]["v"][r] == code:
                    gen._set_na(w, w.df, "u1", r)  # pylint: disable=protected-access
            rhs_text += " + u1"
            used = sorted(set(used) | {"u1"})
            base["frame"] = {"n": w.n, "cols": w.cols}
        forms = [f"{v}['{lvl}']", f'{v}["{lvl}"]']
        if lvl.isidentifier():
            forms.append(f"{v}[{lvl}]")
        text = rng.choice(forms) + " ~ " + rhs_text
        st, dm = design.build(text, w.df, extra_namespace=dict(w.namespace))
        ev = dict(base, kind="build", used=sorted(set(used) | {v}), status="ok", resp=dict(gen.EMPTY), resp_expected=True, tag="subset")
        if st != "ok":
            ev["status"] = type(dm).__name__
            ev["rhs_alone_ok"] = design.build("y ~ " + rhs_text, w.df, extra_namespace=dict(w.namespace))[0] == "ok"
        else:
            ev["resp"] = _resp_part(dm, [[[v, code]]])
            if dm.response.kind != "categoric":
                ev["views"] = False
        out.append((ev, text))
    elif kind == "prop":
        n = w.n
        trials_const = rng.random() < 0.4
        big = rng.random() < 0.5
        nn = [rng.randint(1, 6) * (60 if big else 1) for _ in range(n)]
        cst = rng.randint(3, 7) * (70 if big else 1)
        ss = [rng.randint(0, min(100, (cst if trials_const else nn[i]))) for i in range(n)]
        df = w.df.copy()
        # successes and trials may be stored with different (narrow) integer types
        df["s"] = np.array(ss, dtype=rng.choice([np.int64, np.int8, np.uint8, np.int16, np.int32]))
        df["nn"] = np.array(nn, dtype=rng.choice([np.int64, np.int16, np.int32]))
        cols = dict(w.cols)
        cols["s"] = {"kind": "num", "v": ss, "decl": []}
        cols["nn"] = {"kind": "num", "v": nn, "decl": []}
        cols["cst"] = {"kind": "num", "v": [cst] * n, "decl": []}
        alias = rng.choice(["prop", "p", "proportion"])
        arg = str(cst) if trials_const else rng.choice(["nn", "trials=nn"]) if False else ("nn")
        text = f"{alias}(s, {arg}) ~ " + rhs_text
        w2 = gen.World()
        w2.n, w2.cols, w2.names, w2.df = n, cols, w.names, df
        bad = rng.random() < 0.25
        if bad:
            # successes above trials / non-integer successes must be refused
            df = df.copy()
            if rng.random() < 0.5:
                df["s"] = df["s"].astype(float) + 0.5
            else:
                df["s"] = df["s"].astype(np.int64)
                df.loc[df.index[0], "s"] = (cst if trials_const else int(df["nn"].iloc[0])) + 5
            w2.df = df
            st, dm = design.build(text, df)
            out.append(({"id": idx, "kind": "refuse", "status": "ok" if st == "ok" else type(dm).__name__, "tag": "prop_invalid"}, text))
        else:
            st, dm = design.build(text, df)
            ev = dict(base, kind="build", frame={"n": n, "cols": cols}, used=sorted(set(used) | {"s"} | ({"nn"} if not trials_const else set())), status="ok", resp=dict(gen.EMPTY), resp_expected=True, tag="prop")
            if st != "ok":
                ev["status"] = type(dm).__name__
                ev["rhs_alone_ok"] = design.build("y ~ " + rhs_text, df)[0] == "ok"
            else:
                ev["resp"] = _resp_part(dm, [[["s", 0]], [["cst" if trials_const else "nn", 0]]])
                if dm.response.kind != "proportion":
                    ev["views"] = False
            out.append((ev, text))
    elif kind == "swap":
        r1, r2 = rng.sample(["y", "f", "o", "z", "I(z + w)", "C(k)"], 2)
        t1, t2 = r1 + " ~ " + rhs_text, r2 + " ~ " + rhs_text
        s1, d1 = design.build(t1, w.df)
        s2, d2 = design.build(t2, w.df)
        ev = {"id": idx, "kind": "rows", "status": "ok", "a": [], "b": [], "map": [], "la": [], "lb": [], "tag": "swap_response"}
        if s1 != "ok" or s2 != "ok":
            # a right-hand side that cannot be built fails under both responses
            ev["status"] = "ok" if (s1 != "ok" and s2 != "ok") else "one_response_fails:" + type(d1 if s1 != "ok" else d2).__name__
        else:
            d1.response, d2.response = None, None
            a, la = rows.stack(d1)
            b, lb = rows.stack(d2)
            ia, ib = rows.intern([a, b])
            ev.update(a=ia, b=ib, map=list(range(1, len(ib) + 1)))
            ev["la"], ev["lb"] = rows.label_ids(la, lb)
        out.append((ev, t1 + "  vs  " + t2))
    elif kind == "refuse":
        text = rng.choice(["y + x ~ ", "y:x ~ ", "y*x ~ ", "(y|g) ~ ", "y - x + z ~ ", "f + g ~ ",
                           # two subsets of one variable, or a subset next to the plain variable, are two terms as well
                           "f['a'] + f['b'] ~ ", "f['a']:f['b'] ~ ", "f['a'] + f ~ ", "f['b']*f['a'] ~ "]) + rhs_text
        st, dm = design.build(text, w.df, extra_namespace=dict(w.namespace))
        out.append(({"id": idx, "kind": "refuse", "status": "ok" if st == "ok" else type(dm).__name__, "tag": "multi_term_response"}, text))
    else:
        text = rhs_text
        ev, dm = gen.record_build(idx, text, used, w)
        ev["tag"] = "no_response"
        out.append((ev, text))
    return out


def run(rep, n, seed):
    results = common.pool_map(_events, [(i, seed) for i in range(n)])
    events, texts = [], {}
    for lst in results:
        for ev, text in lst:
            rep.cov["evaluations"] += 1
            if ev.get("status", "ok").startswith("projection:"):
                continue
            if ev["kind"] == "build" and ev["status"] != "ok":
                # only the response forms themselves are judged here; a right-hand side that fails is C03's -
                # but a valid prop / subset form must not be what raises
                if ev.get("tag") in ("prop", "subset") and ev.get("rhs_alone_ok"):
                    rep.violation({"clause": "valid_response_form_raises", "tag": ev["tag"], "exc": ev["status"], "site": "response evaluation"}, {"formula": text, "status": ev["status"]})
                rep.count("builds_that_raised")
                continue
            events.append(ev)
            texts[ev["id"]] = text
            rep.nontrivial_key("R:" + text)
    design_trace.judge(rep, "C15", events, lambda e: {"formula": texts[e["id"]], "event": {k: v for k, v in e.items() if k not in ("frame",)}, "frame": {k: c["v"] for k, c in e.get("frame", {"cols": {}})["cols"].items()}})
    for e in events[:3]:
        rep.sample({"kind": "C->S response-form event", "formula": texts[e["id"]], "event_kind": e["kind"], "tag": e.get("tag")})
