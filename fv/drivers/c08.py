"""C08 Row equivariance and independence from irrelevant frame structure."""
import random
import warnings

import numpy as np
import pandas as pd

from fv import common, design, design_mc, design_trace, gen, rows
from fv.report import Report


def transform_frame(rng, df, n, force_junk=False):
    """A random permutation of the rows plus re-indexing, column reordering and unused columns."""
    perm = list(range(n))
    rng.shuffle(perm)
    df2 = df.iloc[perm].copy()
    ops = []
    r = rng.random()
    if r < 0.25:
        df2.index = [rng.choice(["a", "b", "c"]) for _ in range(n)]  # non-unique labels
        ops.append("index:nonunique-str")
    elif r < 0.5:
        idx = [float(rng.randint(-5, 50)) + 0.5 for _ in range(n)]
        df2.index = idx  # unsorted floats, possibly repeated
        ops.append("index:float")
    elif r < 0.7:
        df2 = df2.reset_index(drop=True)
        ops.append("index:reset")
    else:
        ops.append("index:kept-permuted")
    cols = list(df2.columns)
    if rng.random() < 0.7:
        rng.shuffle(cols)
        df2 = df2[cols]
        ops.append("columns:shuffled")
    if force_junk or rng.random() < 0.5:
        df2["junk1"] = [rng.random() for _ in range(n)]
        df2["junk2"] = [rng.choice(["p", None, "q"]) for _ in range(n)]
        # ... and unused columns that happen to be named like keyword arguments or callees of the formulas
        for nm in ("df", "degree", "knots", "levels", "raw", "shift", "intercept", "C", "np", "scale"):
            if rng.random() < 0.4 and nm not in df2.columns:
                df2[nm] = [None if rng.random() < 0.3 else rng.randint(0, 3) for _ in range(n)]
        ops.append("columns:added-unused(with NA)")
    if rng.random() < 0.4:
        df2 = df2.drop(columns=[c for c in ("u1", "u2") if c in df2.columns])
        ops.append("columns:dropped-unused")
    return df2, perm, ops


def _event(args):
    idx, seed = args
    rng = random.Random((seed * 40487 + idx) & 0xFFFFFFFF)
    w = gen.gen_world(rng, nmin=6, nmax=24, distinct=5)
    text = rows.gen_text_formula(rng, groups=True, rich=True)
    if rng.random() < 0.2:
        text = rng.choice(["f", "o", "C(k)"]) + " ~" + text.split("~", 1)[1]
    ns = rows.namespace(w, rng)
    bare = rng.random() < 0.04
    if bare:
        # a formula that names no column of the frame at all: unused columns (with missing values) still do not matter
        text = rng.choice(["1", "0 + I(UENV)"])
        ns = dict(ns, UENV=np.arange(w.n, dtype=float))
    if not bare and rng.random() < 0.3:
        # missing values in a used column (dropped by default): re-indexing and column operations must
        # still have no effect -- the rows are not permuted here, so both builds keep the same rows
        df0 = w.df.copy()
        col = rng.choice(["x", "z", "f", "g"])
        s0 = df0[col].astype(float) if col in ("x", "z") else df0[col].astype(object)
        for r in rng.sample(range(w.n), max(1, w.n // 5)):
            s0.iloc[r] = np.nan if col in ("x", "z") else None
        df0[col] = s0
        s1, d1 = design.build(text, df0, extra_namespace=ns)
        df2, perm, ops = transform_frame(rng, df0, w.n)
        inv = [0] * w.n
        for newpos, old in enumerate(perm):
            inv[old] = newpos
        df2 = df2.iloc[inv]  # undo the permutation, keep the new index / columns
        ops = ops + ["NA in " + col + " (no permutation)"]
        s2, d2 = design.build(text, df2, extra_namespace=ns)
        ev = {"id": idx, "kind": "rows", "status": "ok", "a": [], "b": [], "map": [], "la": [], "lb": [], "tag": "frame_ops_with_na"}
        info = {"formula": text, "ops": ops, "perm": list(range(w.n))}
        if s1 != "ok" and s2 != "ok":
            return None, info
        if s1 != "ok" or s2 != "ok":
            ev["status"] = "only_one_frame_fails:" + type(d1 if s1 != "ok" else d2).__name__
            return ev, info
        a, la = rows.stack(d1)
        b, lb = rows.stack(d2)
        ia, ib = rows.intern([a, b])
        ev.update(a=ia, b=ib, map=list(range(1, len(ia) + 1)))
        ev["la"], ev["lb"] = rows.label_ids(la, lb)
        return ev, info
    s1, d1 = design.build(text, w.df, extra_namespace=ns)
    df2, perm, ops = transform_frame(rng, w.df, w.n, force_junk=bare)
    if bare:
        perm = list(range(w.n))          # values taken from the caller do not move with the rows of the frame
    s2, d2 = design.build(text, df2, extra_namespace=ns)
    ev = {"id": idx, "kind": "rows", "status": "ok", "a": [], "b": [], "map": [], "la": [], "lb": [], "tag": "frame_ops" + (":no_frame_column" if bare else "")}
    info = {"formula": text, "ops": ops, "perm": perm}
    if s1 != "ok" and s2 != "ok":
        return None, info  # the formula cannot be built on this data at all (other properties)
    if s1 != "ok" or s2 != "ok":
        ev["status"] = "only_one_frame_fails:" + type(d1 if s1 != "ok" else d2).__name__
        info["error"] = str(d1 if s1 != "ok" else d2)[:200]
        return ev, info
    a, la = rows.stack(d1)
    b, lb = rows.stack(d2)
    # levels and slices are part of "nothing else changes"
    la = la + ["lv:" + str(d1.response.levels if d1.response is not None else None)] + ["sl:" + str(d1.common.slices if d1.common is not None else None)] + ["gs:" + str(d1.group.slices if d1.group is not None else None)]
    lb = lb + ["lv:" + str(d2.response.levels if d2.response is not None else None)] + ["sl:" + str(d2.common.slices if d2.common is not None else None)] + ["gs:" + str(d2.group.slices if d2.group is not None else None)]
    ia, ib = rows.intern([a, b])
    ev.update(a=ia, b=ib, map=[p + 1 for p in perm])
    ev["la"], ev["lb"] = rows.label_ids(la, lb)
    return ev, info


def traces(rep, n, seed):
    results = common.pool_map(_event, [(i, seed) for i in range(n)])
    events, infos = [], {}
    for ev, info in results:
        rep.cov["evaluations"] += 1
        if ev is None:
            rep.count("formulas_not_buildable")
            continue
        events.append(ev)
        infos[ev["id"]] = info
        rep.nontrivial_key("P:" + info["formula"] + str(info["perm"]))
    design_trace.judge(rep, "C08", events, lambda e: dict(infos[e["id"]], status=e["status"]))
    for e in events[:2]:
        rep.sample({"kind": "C->S rows event", **infos[e["id"]]})


def main(tier, seed):
    common.use_repo()
    rep = Report("C08", tier, seed)
    rep.rule = (
        "S->C: Design_MC: all non-identity permutations of every small-scope frame (PermEquivariant theorem + replay); "
        "C->S: random worlds x formulas with stateful transforms, codings and group terms, built on the frame and on a "
        "permuted / re-indexed (non-unique, float, unsorted) / column-shuffled / unused-columns-added-or-dropped copy; TLC judges "
        "b[i] = a[perm[i]] on value ids with equal labels, levels and slices. Non-trivial = distinct (formula, permutation) pairs."
    )
    rep.assumptions = ["equality of cell values up to 1e-9 relative (summation order changes the last bits of fitted means)"]
    if tier == "quick":
        design_mc.run(rep, "C08", seed, n=3, nf=3, ng=2, permops=True)
        traces(rep, 1500, seed)
    else:
        design_mc.run(rep, "C08", seed, n=4, nf=3, ng=2, permops=True, sample=120000, timeout=6000)
        traces(rep, 30000, seed)
    rep.exhaustive = True
    return rep.finish()
