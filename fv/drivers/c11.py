"""C11 Name resolution order and evaluation environment.

Scopes.tla enumerates every configuration (which of the five scopes define the probed name,
decoy definitions in frames env does not select, role argument / callee, name form, env 0..3)
and steps through the lookup chain; every terminal state is replayed: the harness synthesises a
chain of four caller functions living in four separate synthetic modules, plants distinguishable
sentinels under the probed name in the selected scopes and observes which one arrives.
"""
import os
import shutil
import types
import warnings

import numpy as np
import pandas as pd

from fv import common, tlc
from fv.report import Report

N_ROWS = 4

MODULE_SRC = '''
def caller(chain, depth, locals_at, local_vals, dm_args):
    if depth in locals_at:
        {name} = local_vals[depth]
    if depth == 0:
        return design_matrices(*dm_args[0], **dm_args[1])
    return chain[depth - 1](chain, depth - 1, locals_at, local_vals, dm_args)
'''


class LoggingDict(dict):
    """extra_namespace that records which names it is asked for."""

    def __init__(self, *a, **k):
        super().__init__(*a, **k)
        self.asked = []

    def __getitem__(self, key):
        self.asked.append(key)
        return super().__getitem__(key)


class Marker:
    """A callable / attribute carrier whose calls return a constant column identifying it."""

    def __init__(self, tag):
        self.tag = tag
        # for dotted callees: NAME.sub.fn(x) and NAME.sub.deep.fn4(x); NAME.sub.fn4 is a wrong turn
        self.sub = types.SimpleNamespace(fn=self, deep=types.SimpleNamespace(fn4=self), fn4=lambda x: np.full(len(x), 555.0))

    def __call__(self, x):
        return np.full(len(x), float(self.tag))


def marker_value(scope, depth):
    return {"data": 7, "locals": 100 + depth, "globals": 200 + depth, "extra": 300, "locals_other_frame": 100, "globals_other_frame": 200}[scope]


LAST_PROBED = [False]


def run_config(cfg, builtin_name="scale"):
    """Returns the observed winner: 'data' | 'builtin' | 'locals' | 'globals' | 'extra' | 'raise' |
    'decoy:<...>' | 'other:<...>'."""
    from formulae import design_matrices
    from formulae.transforms import TRANSFORMS

    defined = set(cfg["defined"])
    decoys = set(cfg["decoys"])
    role, form, env = cfg["role"], cfg["form"], cfg["env"]
    builtin = "builtin" in defined
    # the probed name is spelled like one of Python's own built-ins: that namespace is not a scope of the chain
    pyb = "python_builtins" in decoys and not builtin
    if role == "arg":
        # a built-in name that is harmless as a value; otherwise a name nobody else defines
        name = builtin_name if builtin else ("max" if pyb else "probe_nm")
        if form == "backquoted" and pyb:
            name_src = "`max`"
        elif form == "backquoted" and not builtin:
            name_src, name = "`probe nm`", "probe nm"
        elif form == "backquoted":
            name_src = "`" + builtin_name + "`"
        else:
            name_src = name
        received = []

        def rec(v):
            received.append(v)
            return np.zeros(N_ROWS)

        formula = {"keyword": f"y ~ 0 + fv_rec(v={name_src})", "keyword_expr": f"y ~ 0 + fv_rec(v={name_src} * 1)"}.get(form, f"y ~ 0 + fv_rec({name_src})")
    else:
        name = builtin_name if builtin else ("abs" if pyb else "probe_fn")
        name_src = name
        formula = {"dotted": f"y ~ 0 + {name}.sub.fn(x)", "dotted4": f"y ~ 0 + {name}.sub.deep.fn4(x)"}.get(form, f"y ~ 0 + {name}(x)")
    df = pd.DataFrame({"y": np.arange(N_ROWS, dtype=float), "x": np.arange(N_ROWS, dtype=float) + 1})
    if "data" in defined:
        df[name] = np.full(N_ROWS, float(marker_value("data", 0)))
    ident = name.replace(" ", "_")
    python_name_ok = name.isidentifier()

    def sentinel(scope, depth):
        v = marker_value(scope, depth)
        return np.full(N_ROWS, float(v)) if role == "arg" else Marker(v)

    mods = []
    for depth in range(4):
        g = {"design_matrices": design_matrices, "__name__": f"fv_synthetic_module_{depth}"}
        src = MODULE_SRC.format(name=name if python_name_ok else "unused_local")
        exec(compile(src, f"<fv_synthetic_module_{depth}>", "exec"), g)  # pylint: disable=exec-used
        mods.append(g)
    locals_at = set()
    local_vals = {}
    if python_name_ok:
        if "locals" in defined:
            locals_at.add(env)
        if "locals_other_frame" in decoys:
            locals_at.update(d for d in range(4) if d != env)
        for d in range(4):
            local_vals[d] = sentinel("locals", d)
    for d in range(4):
        if ("globals" in defined and d == env) or ("globals_other_frame" in decoys and d != env):
            mods[d][name] = sentinel("globals", d)
    extra = LoggingDict(fv_always_there=1)
    if "extra" in defined:
        extra[name] = sentinel("extra", 0)
    if role == "arg":
        extra["fv_rec"] = rec
    chain = [m["caller"] for m in mods]
    dm_args = ((formula, df), {"env": env, "extra_namespace": extra})
    if env == 0 and role == "callee" and "extra" not in defined and len(defined) % 2 == 0:
        dm_args = ((formula, df), {})   # the defaults: the direct caller's scopes, no extra namespace
    LAST_PROBED[0] = False
    try:
        try:
            with warnings.catch_warnings():
                warnings.simplefilter("ignore")
                dm = chain[3](chain, 3, locals_at, local_vals, dm_args)
        finally:
            LAST_PROBED[0] = name in extra.asked
    except Exception as e:  # pylint: disable=broad-except
        msg = str(e)
        if role == "callee" and form in ("dotted", "dotted4") and isinstance(e, AttributeError) and ("'Scale'" in msg or "'Treatment'" in msg):
            return "builtin", ""  # the first component resolved to the built-in class, which has no attribute 'sub'
        if role == "callee" and builtin_name == "Treatment" and "unrecognized type" in msg and "Treatment" in msg:
            return "builtin", ""  # the built-in Treatment class was called: its instance is not a column
        if role == "arg" and form == "keyword_expr" and isinstance(e, TypeError) and "unsupported operand" in msg and ("'type'" in msg or "ABCMeta" in msg):
            return "builtin", ""  # the name resolved to the built-in class, which cannot be multiplied by 1
        if "builtin_function_or_method" in msg:
            return "decoy:python_builtins", msg[:80]
        return "raise", type(e).__name__ + ": " + msg[:80]
    if role == "arg":
        if not received:
            return "other:not-called", ""
        v = received[0]
        from formulae.categorical import ENCODINGS

        if v is TRANSFORMS.get("scale") or v is ENCODINGS.get("Treatment"):
            return "builtin", ""
        if v is max:
            return "decoy:python_builtins", ""
        try:
            tag = int(np.asarray(v, dtype=float).ravel()[0])
        except Exception:  # pylint: disable=broad-except
            return "other:" + type(v).__name__, ""
    else:
        col = np.asarray(dm.common.design_matrix, dtype=float)
        if col.ndim == 2:
            col = col[:, 0]
        tag = int(round(col[0]))
        if pyb and np.array_equal(col, np.abs(np.asarray(df["x"], dtype=float))) and tag == 1:
            return "decoy:python_builtins", ""  # Python's abs was called on x = 1, 2, 3, 4
        if builtin and abs(col.mean()) < 1e-9 and abs(col.std() - 1) < 1e-9:
            return "builtin", ""  # the real scale(x): mean 0, sd 1
    if tag == 7:
        return "data", ""
    if tag == 300:
        return "extra", ""
    if 100 <= tag < 104:
        return ("locals" if tag - 100 == env and "locals" in defined else f"decoy:locals@{tag - 100}"), ""
    if 200 <= tag < 204:
        return ("globals" if tag - 200 == env and "globals" in defined else f"decoy:globals@{tag - 200}"), ""
    return f"other:{tag}", ""


def _replay(case):
    cfg = case["cfg"]
    bname = case.get("builtin_name", "scale")
    # a backquoted name that is not an identifier cannot live in locals (it still can in globals / extra / data)
    got, err = run_config(cfg, bname)
    probed = bool(LAST_PROBED[0])
    want = case["winner"]
    nonident = cfg["form"] == "backquoted" and "builtin" not in cfg["defined"] and "python_builtins" not in cfg["decoys"]
    if nonident and "locals" in cfg["defined"]:
        # 'probe nm' cannot be a Python local: that scope is effectively undefined for this name
        d2 = [s for s in cfg["defined"] if s != "locals"]
        order = ["data", "builtin", "locals", "globals", "extra"]
        want = next((s for s in order if s in d2), "raise")
    effective = [x for x in cfg["defined"] if not (x == "locals" and nonident)]
    case["_event"] = {"role": cfg["role"], "defined": effective, "probed": probed, "winner": got.split(":")[0] if got.startswith("decoy") else got}
    if got != want:
        return ({"clause": "wrong_scope_wins" if got != "raise" and want != "raise" else ("undefined_name_resolved" if want == "raise" else "defined_name_not_found"),
                 "want": want, "got": got.split("@")[0], "role": cfg["role"], "form": cfg["form"]}, {"config": cfg, "builtin_name": bname, "want": want, "got": got, "error": err})
    return None


def _replay2(case):
    prob = _replay(case)
    return prob, case.get("_event")


def none_bindings(rep):
    """A binding to None is a binding: the first scope that defines the name wins even when the value is None."""
    from formulae import design_matrices

    df = pd.DataFrame({"y": np.arange(N_ROWS, dtype=float), "x": np.arange(N_ROWS, dtype=float) + 1})
    got = []

    def rec(v):
        got.append(v)
        return np.zeros(N_ROWS)

    def with_local(probe_none=None):
        return design_matrices("y ~ 0 + fv_rec(probe_none)", df, extra_namespace={"fv_rec": rec, "probe_none": "EXTRA"})

    g = {"design_matrices": design_matrices, "df": df, "rec": rec, "probe_none": None}
    exec("def with_global():\n    return design_matrices('y ~ 0 + fv_rec(probe_none)', df, extra_namespace={'fv_rec': rec, 'probe_none': 'EXTRA'})", g)  # pylint: disable=exec-used
    for how, fn in (("local None over extra_namespace", with_local), ("global None over extra_namespace", g["with_global"]),
                    ("None in extra_namespace only", lambda: design_matrices("y ~ 0 + fv_rec(probe_none)", df, extra_namespace={"fv_rec": rec, "probe_none": None}))):
        got.clear()
        rep.cov["evaluations"] += 1
        try:
            fn()
            ok = len(got) == 1 and got[0] is None
            err = ""
        except Exception as e:  # pylint: disable=broad-except
            ok, err = False, type(e).__name__ + ": " + str(e)[:80]
        if not ok:
            rep.violation({"clause": "binding_to_None_skipped", "how": how}, {"received": repr(got[:1]), "error": err})


def main(tier, seed):
    common.use_repo()
    rep = Report("C11", tier, seed)
    rep.rule = (
        "Complete: all 5376 configurations of Scopes_MC (2^5 scope subsets (data only for arguments) x 8 decoy subsets (other frames' locals, other frames' globals, "
        "a name spelled like a Python built-in) x role x "
        "name form (argument: plain / back-quoted / value of a keyword argument; callee: plain / a.b.f / a.b.c.f) x env 0..3); each terminal state is replayed with sentinels through four synthetic caller modules. "
        "Non-trivial = configurations in which at least two scopes (or a decoy) define the name."
    )
    rep.assumptions = [
        "the built-in scope is probed with the names 'scale' (transforms) and 'Treatment' (encodings); other scopes with a fresh name",
        "a back-quoted name that is not an identifier cannot be a Python local variable; that scope is treated as not defining it",
    ]
    tmp = tlc.scratch_dir("fv_c11_")
    try:
        out = os.path.join(tmp, "s.ndjson")
        cfg = common.write_cfg(os.path.join(tmp, "c.cfg"), constants={"DoExport": True}, invariants=["FirstMatchWins", "DecoysIrrelevant", "NoShadowing", "Export"])
        res = tlc.run_tlc("Scopes_MC", cfg=cfg, env={"FV_OUT": out}, workers=8, heap="4g", timeout=900, allow_violation=True, coverage=True)
        rep.add_tlc("Scopes_MC", res)
        if res.violated:
            rep.violation({"clause": "spec_level:" + ",".join(res.violated), "site": "Scopes.tla"}, {"tlc_tail": res.out[-2000:]})
            return rep.finish()
        rep.notes["actions_never_taken"] = [a for a, (d, t) in res.coverage.items() if t == 0]
        cases = tlc.read_export(out)
    finally:
        shutil.rmtree(tmp, ignore_errors=True)
    # the built-in scope holds two registries (transforms and encodings): probe a name of each
    cases = cases + [dict(c, builtin_name="Treatment") for c in cases if "builtin" in c["cfg"]["defined"]]
    results2 = common.pool_map(_replay2, cases)
    results = [r[0] for r in results2]
    events = []
    for k, r in enumerate(results2):
        if r[1] is not None and not r[1]["winner"].startswith(("other", "decoy")):
            events.append(dict(r[1], id=k + 1))
    tmp = tlc.scratch_dir("fv_c11t_")
    try:
        path = os.path.join(tmp, "t.ndjson")
        common.write_ndjson(path, events)
        res = tlc.run_tlc("Scopes_Trace", env={"FV_TRACE": path}, workers=1, heap="2g", timeout=900)
        rep.add_tlc("Scopes_Trace", res)
        if not any(v[1] == "done" and v[2] == len(events) for v in res.fv):
            raise tlc.TLCFailure("Scopes_Trace did not consume the whole trace")
        rep.cov["traces_validated_against_impl"] = len(events)
        for v in res.fv:
            if v[1] == "bad":
                c = cases[v[2] - 1]
                if v[3] == "wrong_scope_wins":
                    continue  # already reported by the replay above
                # the path differs from the modelled machine although the winner is right: drift
                rep.cov["impl_drift"] += 1
                rep.notes.setdefault("path_drift_sample", {"clause": v[3], "config": c["cfg"]})
    finally:
        shutil.rmtree(tmp, ignore_errors=True)
    none_bindings(rep)
    for c, prob in zip(cases, results):
        rep.cov["evaluations"] += 1
        if len(c["cfg"]["defined"]) + len(c["cfg"]["decoys"]) >= 2:
            rep.nontrivial_key(repr(sorted(c["cfg"].items())))
        if prob is not None:
            rep.violation(*prob)
    for c in cases[:: max(1, len(cases) // 3)][:3]:
        rep.sample({"kind": "S->C scope configuration", "config": c["cfg"], "expected_winner": c["winner"], "probes": c["probes"]})
    rep.exhaustive = True
    return rep.finish()
