"""C12 Call terms evaluate like the Python expression they spell.

PyExpr.tla gives Python's tree for an argument token string (Abs) and reuses Grammar's
transcription of the formula parser (Impl); TLC proves on every short token string that the two
differ exactly on the KF_C12_pow class and exports the cases.  Each case is rendered to text and
evaluated twice with recording operands: through formulae (inside a call to a recording
function) and with CPython's eval; the two received operator trees must be equal.  The spec's
Python tree is cross-checked with the ast module (a mismatch is a spec bug, exit 2).
"""
import ast
import os
import random
import shutil
import warnings

import numpy as np
import pandas as pd

from fv import common, design, syntax, tlc
from fv.report import Report

N = 3
OPS = {"PLUS": "+", "MINUS": "-", "STAR": "*", "SLASH": "/", "STAR_STAR": "**", "EQUAL_EQUAL": "==", "BANG_EQUAL": "!=", "LESS": "<", "LESS_EQUAL": "<=", "GREATER": ">", "GREATER_EQUAL": ">="}
AST_OPS = {ast.Add: "PLUS", ast.Sub: "MINUS", ast.Mult: "STAR", ast.Div: "SLASH", ast.Pow: "STAR_STAR", ast.Eq: "EQUAL_EQUAL", ast.NotEq: "BANG_EQUAL", ast.Lt: "LESS", ast.LtE: "LESS_EQUAL", ast.Gt: "GREATER", ast.GtE: "GREATER_EQUAL", ast.USub: "MINUS", ast.UAdd: "PLUS"}


class Rec:
    """Operand that records the operator tree Python builds with it."""

    def __init__(self, t):
        self.t = t

    @staticmethod
    def tr(x):
        if isinstance(x, Rec):
            return x.t
        if isinstance(x, (bool, np.bool_)):
            return ["const", bool(x)]
        try:
            return ["const", round(float(x), 9)]
        except (TypeError, ValueError, OverflowError):
            try:
                return ["const", repr(x)]
            except ValueError:
                return ["const", "int with %d bits" % x.bit_length()]

    def _bin(op, swap=False):  # pylint: disable=no-self-argument
        def f(self, other):
            a, b = (Rec.tr(other), self.t) if swap else (self.t, Rec.tr(other))
            return Rec(["bin", op, a, b])

        return f

    __add__, __radd__ = _bin("PLUS"), _bin("PLUS", True)
    __sub__, __rsub__ = _bin("MINUS"), _bin("MINUS", True)
    __mul__, __rmul__ = _bin("STAR"), _bin("STAR", True)
    __truediv__, __rtruediv__ = _bin("SLASH"), _bin("SLASH", True)
    __pow__, __rpow__ = _bin("STAR_STAR"), _bin("STAR_STAR", True)
    __eq__, __ne__ = _bin("EQUAL_EQUAL"), _bin("BANG_EQUAL")
    __lt__, __le__, __gt__, __ge__ = _bin("LESS"), _bin("LESS_EQUAL"), _bin("GREATER"), _bin("GREATER_EQUAL")
    __hash__ = None

    def __neg__(self):
        return Rec(["un", "MINUS", self.t])

    def __pos__(self):
        return Rec(["un", "PLUS", self.t])


def ast_tree(node):
    """Python AST -> Grammar encoding (no grouping nodes, leaves by kind)."""
    if isinstance(node, ast.Expression):
        return ast_tree(node.body)
    if isinstance(node, ast.BinOp):
        return ["bin", AST_OPS[type(node.op)], ast_tree(node.left), ast_tree(node.right)]
    if isinstance(node, ast.UnaryOp):
        return ["un", AST_OPS[type(node.op)], ast_tree(node.operand)]
    if isinstance(node, ast.Compare):
        if len(node.ops) != 1:
            raise ValueError("chained")
        return ["bin", AST_OPS[type(node.ops[0])], ast_tree(node.left), ast_tree(node.comparators[0])]
    if isinstance(node, ast.Name):
        return ["atom", "IDENTIFIER"]
    if isinstance(node, ast.Constant):
        if isinstance(node.value, str):
            return ["atom", "STRING"]
        if isinstance(node.value, bool) or node.value is None:
            return ["atom", "PYTHON_LITERAL"]
        return ["atom", "NUMBER"]
    if isinstance(node, ast.Call):
        args = [ast_tree(a) for a in node.args] + [["assign", ["atom", "IDENTIFIER"], ast_tree(k.value)] for k in node.keywords]
        return ["call", ["atom", "IDENTIFIER"], args, False]
    raise ValueError(type(node).__name__)


def render_arg(kinds, rng):
    """Argument text for a kinds string: identifiers alternate between the two recorders,
    numbers between small literals; random inter-token whitespace."""
    lex = []
    ids = ["u", "v"]
    nums = ["2", "0.5", "1.5", "2"]  # a single integer literal: towers like 3**3**3**3 would never finish
    for k in kinds:
        if k == "IDENTIFIER":
            lex.append(rng.choice(ids))
        elif k == "NUMBER":
            lex.append(rng.choice(nums))
        else:
            lex.append(syntax.LEXEMES[k][0])
    return lex


def eval_formulae(text):
    """The tree a user function receives for f(<text>) through formulae."""
    got = []

    def fv_rec(x):
        got.append(x)
        return np.zeros(N)

    df = pd.DataFrame({"y": np.arange(N, dtype=float)})
    ns = {"fv_rec": fv_rec, "u": Rec(["atom", "u"]), "v": Rec(["atom", "v"])}
    st, dm = design.build(f"y ~ 0 + fv_rec({text})", df, extra_namespace=ns)
    if st != "ok":
        return "exc", type(dm).__name__ + ": " + str(dm)[:100], None
    name = list(dm.common.terms)[0]
    return "ok", Rec.tr(got[0]), name


def eval_python(text):
    try:
        v = eval(text, {"__builtins__": {}}, {"u": Rec(["atom", "u"]), "v": Rec(["atom", "v"])})  # pylint: disable=eval-used
    except Exception as e:  # pylint: disable=broad-except
        return "exc", type(e).__name__
    return "ok", Rec.tr(v)


def _replay(args):
    case, seed = args
    rng = random.Random((seed * 3571 + hash(tuple(case["ts"]))) & 0xFFFFFFFF)
    lex = render_arg(case["ts"], rng)
    text = syntax.render(lex, 1, rng)
    text_ws = syntax.render(lex, 2, rng).strip()
    probs = []
    kf = {"pow_issue": bool(case["pow_issue"])}
    if not case["py_ok"]:
        return probs, "ood", None
    # machinery: the spec's Python tree must be CPython's
    try:
        want_shape = ast_tree(ast.parse(text, mode="eval"))
    except Exception as e:  # pylint: disable=broad-except
        return [({"clause": "HARNESS_spec_python_tree"}, {"text": text, "error": repr(e)})], "harness", None
    spec_shape = syntax.strip_groups(case["py_tree"])
    if spec_shape != want_shape:
        return [({"clause": "HARNESS_spec_python_tree"}, {"text": text, "spec": spec_shape, "ast": want_shape})], "harness", None
    ps, pv = eval_python(text)
    fs, fv, name = eval_formulae(text)
    base = {"argument": text, "python": pv, "formulae": fv}
    if ps != "ok":
        return probs, "ood", None  # e.g. 2 / 0 on constants: Python itself raises
    if fs != "ok":
        probs.append((dict({"clause": "python_expression_rejected_or_failed", "site": "Call.set_type"}, **kf), base))
        return probs, "bad", None
    if fv != pv:
        probs.append((dict({"clause": "value_differs_from_python_eval", "site": "CallResolver / parser levels"}, **kf), base))
    # the term name: whitespace variants are one term
    fs2, fv2, name2 = eval_formulae(text_ws)
    if fs2 == "ok" and name2 != name:
        probs.append(({"clause": "whitespace_changed_term_name", **kf}, dict(base, other=text_ws, names=[name, name2])))
    # ... and the name spells the same Python expression as the source
    key = None
    try:
        inner = name[len("fv_rec(") : -1]
        key = (inner, ast.dump(ast.parse(text, mode="eval")))
        if ast.dump(ast.parse(inner, mode="eval")) != ast.dump(ast.parse(text, mode="eval")):
            probs.append((dict({"clause": "term_name_spells_another_expression", "site": "LazyOperator.__str__", "needs_parens": "LEFT_PAREN" in case["ts"]}, **kf), dict(base, name=name)))
    except SyntaxError:
        probs.append((dict({"clause": "term_name_is_not_python", "site": "LazyOperator.__str__"}, **kf), dict(base, name=name)))
    return probs, "ok", key


def mc_and_replay(rep, kinds, maxlen, seed, sample=None, timeout=3000):
    tmp = tlc.scratch_dir("fv_c12_")
    try:
        out = os.path.join(tmp, "cases.ndjson")
        cfg = common.write_cfg(os.path.join(tmp, "c.cfg"), constants={"EofCheck": True, "MaxLen": maxlen, "DoExport": True, "Kinds": kinds},
                               invariants=["PythonAccepted", "DifferenceTheorem", "PyYield", "Export"])
        res = tlc.run_tlc("PyExpr_MC", cfg=cfg, env={"FV_OUT": out}, workers=16, heap="12g", timeout=timeout, allow_violation=True)
        rep.add_tlc(f"PyExpr_MC kinds={len(kinds)} maxlen={maxlen}", res)
        if res.violated:
            rep.violation({"clause": "spec_level:" + ",".join(res.violated), "site": "PyExpr.tla"}, {"tlc_tail": res.out[-2500:]})
            return
        cases = [c for c in tlc.read_export(out) if c["py_ok"]]
    finally:
        shutil.rmtree(tmp, ignore_errors=True)
    rep.count("python_expressions_enumerated", len(cases))
    if sample and len(cases) > sample:
        cases = random.Random(seed).sample(cases, sample)
        rep.notes["s2c_replay_sampled"] = True
    results = common.pool_map(_replay, [(c, seed) for c in cases])
    names = {}
    for c, (probs, kind, key) in zip(cases, results):
        rep.cov["evaluations"] += 1
        if kind == "ood":
            rep.cov["out_of_domain"] += 1
            continue
        if sum(1 for k in c["ts"] if k in OPS) >= 2:
            rep.nontrivial_key("S:" + " ".join(c["ts"]))
        for sig, case in probs:
            if sig["clause"].startswith("HARNESS"):
                raise RuntimeError("spec's Python tree differs from the ast module: " + repr(case)[:400])
            rep.violation(sig, case)
        if key is not None:
            names.setdefault(key[0], set()).add((key[1], bool(c["pow_issue"])))
    # different calls are different terms
    for nm, asts in names.items():
        if len({a for a, _ in asts}) > 1:
            # two sources that formulae evaluates alike because of the ** rule share a name: that is the pow class
            rep.violation({"clause": "different_expressions_share_a_term_name", "site": "LazyOperator.__str__", "needs_parens": True, "pow_issue": any(p for _, p in asts)}, {"name": nm, "n_expressions": len(asts)})
    for c in cases[:: max(1, len(cases) // 3)][:3]:
        rep.sample({"kind": "S->C argument expression", "tokens": c["ts"], "python_tree": c["py_tree"], "pow_issue": c["pow_issue"]})


# ------------------------------------------------------------------ C->S and the fixed checks


def gen_py(rng, depth):
    if depth <= 0 or rng.random() < 0.3:
        return ["atom", rng.choice(["IDENTIFIER", "IDENTIFIER", "NUMBER"])]
    r = rng.random()
    if r < 0.15:
        return ["un", rng.choice(["MINUS", "PLUS"]), gen_py(rng, depth - 1)]
    if r < 0.25:
        return ["grp", gen_py(rng, depth - 1)]
    op = rng.choice(["PLUS", "MINUS", "STAR", "SLASH", "STAR_STAR", "STAR_STAR", "LESS", "EQUAL_EQUAL"])
    return ["bin", op, gen_py(rng, depth - 1), gen_py(rng, depth - 1)]


PY_LEVEL = {"EQUAL_EQUAL": 3, "LESS": 3, "PLUS": 4, "MINUS": 4, "STAR": 5, "SLASH": 5, "STAR_STAR": 8}


def py_tokens(t, ctx=0, side=""):
    """Minimal-parenthesis Python rendering (kinds) of a tree; grouping nodes are kept."""
    tag = t[0]
    if tag == "atom":
        return [t[1]]
    if tag == "grp":
        return ["LEFT_PAREN"] + py_tokens(t[1]) + ["RIGHT_PAREN"]
    if tag == "un":
        inner = [t[1]] + py_tokens(t[2], 7, "u")
        # a sign is looser than ** on its left: as base of a power it needs parentheses
        return ["LEFT_PAREN"] + inner + ["RIGHT_PAREN"] if ctx > 7 or (ctx == 8 and side == "l") else inner
    lvl = PY_LEVEL[t[1]]
    if t[1] == "STAR_STAR":
        inner = py_tokens(t[2], 8, "l") + [t[1]] + py_tokens(t[3], 7, "r")
        need = ctx > 8 or (ctx == 8 and side == "l")
    elif lvl == 3:
        inner = py_tokens(t[2], 4, "l") + [t[1]] + py_tokens(t[3], 4, "r")
        need = ctx >= 3
    else:
        inner = py_tokens(t[2], lvl, "l") + [t[1]] + py_tokens(t[3], lvl, "r")
        need = ctx > lvl or (ctx == lvl and side == "r")
    return ["LEFT_PAREN"] + inner + ["RIGHT_PAREN"] if need else inner


def _has_ident(t):
    if t[0] == "atom":
        return t[1] == "IDENTIFIER"
    return any(_has_ident(c) for c in t[1:] if isinstance(c, list))


def _cmp_left_ok(t):
    """Python reflects 'const < rec' into 'rec > const' (the recorder cannot tell): keep only
    comparisons whose left operand contains a recorder."""
    if t[0] == "atom":
        return True
    if t[0] == "bin" and PY_LEVEL[t[1]] == 3 and not _has_ident(t[2]):
        return False
    return all(_cmp_left_ok(c) for c in t[1:] if isinstance(c, list))


def _trace_event(args):
    idx, seed, depth = args
    rng = random.Random((seed * 7103 + idx) & 0xFFFFFFFF)
    tree = gen_py(rng, rng.randint(2, depth))

    def fold_free(t):
        # an operator applied to constants only is folded by both evaluators and leaves no trace
        if t[0] == "atom":
            return True
        if t[0] in ("un", "bin") and not _has_ident(t):
            return False
        return all(fold_free(c) for c in t[1:] if isinstance(c, list))

    if not _cmp_left_ok(tree) or not fold_free(tree):
        return None
    kinds = py_tokens(tree)
    lex = render_arg(kinds, rng)
    text = syntax.render(lex, 2, rng).strip()
    ps, pv = eval_python(text)
    if ps != "ok":
        return None
    fs, fv, name = eval_formulae(text)

    def shape(t):
        if t[0] == "atom":
            return ["atom", "IDENTIFIER"]
        if t[0] == "const":
            return ["atom", "NUMBER"]
        if t[0] == "un":
            return ["un", t[1], shape(t[2])]
        return ["bin", t[1], shape(t[2]), shape(t[3])]

    # constant sub-expressions are folded by both evaluators; send the unfolded shape only when
    # nothing was folded (every constant of the text survives as a leaf)
    n_num = sum(1 for k in kinds if k == "NUMBER")

    def count_const(t):
        return 1 if t[0] == "const" else 0 if t[0] == "atom" else sum(count_const(c) for c in t[2:] if isinstance(c, list))

    folded = fs == "ok" and count_const(fv) != n_num
    ev = {"id": idx, "toks": kinds, "ok": fs == "ok", "got": shape(fv) if fs == "ok" and not folded else [], "folded": folded}
    same_as_python = fs == "ok" and fv == pv
    name_ok = True
    if fs == "ok":
        try:
            name_ok = ast.dump(ast.parse(name[len("fv_rec(") : -1], mode="eval")) == ast.dump(ast.parse(text.strip(), mode="eval"))
        except SyntaxError:
            name_ok = False
    return ev, text, same_as_python, (fv if fs == "ok" else str(fv)), pv, name_ok, name


def traces(rep, n, depth, seed):
    results = [r for r in common.pool_map(_trace_event, [(i, seed, depth) for i in range(n)]) if r is not None]
    events = [r[0] for r in results if not r[0]["folded"]]
    info = {r[0]["id"]: r for r in results}
    tmp = tlc.scratch_dir("fv_c12t_")
    try:
        path = os.path.join(tmp, "t.ndjson")
        common.write_ndjson(path, [{k: e[k] for k in ("id", "toks", "ok", "got")} for e in events])
        res = tlc.run_tlc("PyExpr_Trace", env={"FV_TRACE": path}, workers=1, heap="4g", timeout=2400)
        rep.add_tlc("PyExpr_Trace", res)
        if not any(v[1] == "done" and v[2] == len(events) for v in res.fv):
            raise tlc.TLCFailure("PyExpr_Trace did not consume the whole trace")
        rep.cov["traces_validated_against_impl"] += len(events)
        rep.cov["evaluations"] += len(results)
        judged_bad = set()
        for v in res.fv:
            if v[1] == "bad":
                r = info[v[2]]
                judged_bad.add(v[2])
                rep.violation({"clause": v[3], "judge": "PyExpr_Trace", "pow_issue": bool(v[4]), "site": "CallResolver / parser levels"}, {"argument": r[1], "formulae": r[3], "python": r[4], "tokens": r[0]["toks"]})
            elif v[1] == "ood":
                rep.cov["out_of_domain"] += 1
        # TLC's verdict (tree) and CPython's verdict (value) must agree: otherwise the spec is wrong
        for e in events:
            r = info[e["id"]]
            if e["ok"] and (e["id"] in judged_bad) == r[2]:
                raise RuntimeError("PyExpr.tla and CPython disagree on " + r[1])
        for r in results:
            if not r[5] and r[2]:
                # (judged only where the value itself is right, so that the pow class is not counted twice)
                rep.violation({"clause": "term_name_spells_another_expression", "site": "LazyOperator.__str__", "needs_parens": "LEFT_PAREN" in r[0]["toks"], "pow_issue": False}, {"argument": r[1], "name": r[6]})
        for e in events:
            if len(e["toks"]) >= 7:
                rep.nontrivial_key("T:" + " ".join(e["toks"]))
        for e in events[:2]:
            rep.sample({"kind": "C->S evaluated argument", "argument": info[e["id"]][1], "received_tree": e["got"]})
    finally:
        shutil.rmtree(tmp, ignore_errors=True)


def fixed_checks(rep):
    """Literals, keyword arguments, nested calls, quote style, {expr} = I(expr)."""
    df = pd.DataFrame({"y": np.arange(4.0), "x": np.array([1.0, 2.0, 3.0, 4.0]), "z": np.array([2.0, 0.5, 1.0, 3.0])})
    seen = []

    def g(*a, **k):
        seen.append((a, k))
        return np.zeros(4)

    ns = {"g": g, "np": np}
    cases = [
        ("g(x, 2, 'a', \"b\", True, False, None, 1.5, .25)", lambda a, k: len(a) == 9 and a[1] == 2 and type(a[1]) is int and a[2] == "a" and a[3] == "b" and a[4] is True and a[5] is False and a[6] is None and a[7] == 1.5 and a[8] == 0.25 and not k),
        ("g(x, k=2, s='q')", lambda a, k: len(a) == 1 and k == {"k": 2, "s": "q"}),
        ("g(x, k = z * 2 + 1)", lambda a, k: np.allclose(k["k"], df["z"] * 2 + 1)),
        ("g(np.exp(x), np.power(z, 2))", lambda a, k: np.allclose(a[0], np.exp(df["x"])) and np.allclose(a[1], df["z"] ** 2)),
        ("g(x / z - 3 * x)", lambda a, k: np.allclose(a[0], df["x"] / df["z"] - 3 * df["x"])),
        ("g((x + z) * 2)", lambda a, k: np.allclose(a[0], (df["x"] + df["z"]) * 2)),
        ("g(x >= 2)", lambda a, k: list(a[0]) == [False, True, True, True]),
        ("g(x != z)", lambda a, k: list(a[0]) == [True, True, True, True]),
        ("g(2 ** 3, 7 / 2, 1 - 2 - 3)", lambda a, k: a == (8, 3.5, -4)),
        # a '~' inside a string literal is part of the string
        ("g(x, '~', s='a~b')", lambda a, k: a[1] == "~" and k == {"s": "a~b"}),
        ("g(x, '~~', \"~\")", lambda a, k: a[1] == "~~" and a[2] == "~"),
        # integers are exact however long they are (more than 53 bits)
        ("g(x, 9007199254740993, k=1700000000000000123)", lambda a, k: a[1] == 9007199254740993 and type(a[1]) is int and k == {"k": 1700000000000000123}),
        ("g(x - 123456789012345678901)", lambda a, k: a[0].iloc[0] == 1 - 123456789012345678901),
    ]
    for text, pred in cases:
        seen.clear()
        st, dm = design.build("y ~ 0 + " + text, df, extra_namespace=ns)
        rep.cov["evaluations"] += 1
        ok = st == "ok" and seen and pred(*seen[0])
        if not ok:
            rep.violation({"clause": "arguments_differ_from_python_call", "pow_issue": False, "site": "LazyCall.eval"}, {"call": text, "status": st, "error": str(dm)[:100] if st != "ok" else "", "received": repr(seen[:1])[:200]})
    # names taken from the caller evaluate to whatever they are bound to, as in Python - also values that are
    # false or None (a binding to None is a binding: no outer scope is consulted)
    for val in (None, 0, 0.0, False, "", [], 3):
        seen.clear()
        inner = {"g": g, "np": np, "nv": val}

        def call_with_local(nv=val):
            return design.build("y ~ 0 + g(x, nv, k=nv)", df, extra_namespace={"g": g, "nv": "OUTER"}, env=1)

        for how, (st, dm) in (("extra_namespace", design.build("y ~ 0 + g(x, nv, k=nv)", df, extra_namespace=inner)), ("local_shadows_outer", call_with_local())):
            rep.cov["evaluations"] += 1
            ok = st == "ok" and seen and len(seen[-1][0]) == 2 and type(seen[-1][0][1]) is type(val) and seen[-1][0][1] == val and type(seen[-1][1].get("k")) is type(val)
            if not ok:
                rep.violation({"clause": "name_bound_to_false_value_not_passed_as_is", "pow_issue": False, "site": "VarLookupDict"}, {"value": repr(val), "how": how, "status": st, "error": str(dm)[:100] if st != "ok" else "", "received": repr(seen[-1:])[:160]})
    # a dotted callee denotes whatever the names denote NOW, as in Python: the attribute is looked up at every
    # evaluation (a module that was reloaded, an attribute that was reassigned, another object under the same name)
    import types

    helpers = types.SimpleNamespace(rescale=lambda v, by=1: np.asarray(v, dtype=float) * by, sub=types.SimpleNamespace(fn=lambda v: np.asarray(v, dtype=float) + 1))
    steps = [
        ("first binding", lambda: None),
        ("attribute reassigned", lambda: setattr(helpers, "rescale", lambda v, by=1: np.asarray(v, dtype=float) / by)),
        ("inner attribute reassigned", lambda: setattr(helpers.sub, "fn", lambda v: np.asarray(v, dtype=float) - 1)),
        ("another object under the same name", lambda: None),
    ]
    other = types.SimpleNamespace(rescale=lambda v, by=1: np.asarray(v, dtype=float) * 0 + by, sub=types.SimpleNamespace(fn=lambda v: np.asarray(v, dtype=float) * 7))
    for how, act in steps:
        act()
        obj = other if how.startswith("another") else helpers
        for text in ("helpers.rescale(x + z, by=4)", "helpers.sub.fn(x)"):
            st, dm = design.build("y ~ 0 + " + text, df, extra_namespace={"helpers": obj})
            want = eval(text, {"helpers": obj, "x": df["x"], "z": df["z"]})  # pylint: disable=eval-used
            rep.cov["evaluations"] += 1
            if st != "ok" or not np.allclose(np.asarray(dm.common)[:, 0], want):
                rep.violation({"clause": "dotted_callee_not_looked_up_at_evaluation", "pow_issue": False, "site": "get_function_from_module"}, {"call": text, "step": how, "status": st})
    # data names take priority over the caller's names at every evaluation: a name that came from the caller at
    # training time is the column of that name when the new frame has one
    seen.clear()
    st, dm = design.build("y ~ 0 + I(x * rate - 1)", df, extra_namespace={"rate": 2.0})
    rep.cov["evaluations"] += 1
    if st == "ok":
        new = pd.DataFrame({"x": np.array([1.0, 2.0, 3.0]), "rate": np.array([0.5, 0.25, 1.0])})
        try:
            got = np.asarray(dm.common.evaluate_new_data(new).design_matrix, dtype=float).reshape(-1)
            want = np.asarray(new["x"] * new["rate"] - 1, dtype=float)
            if not np.allclose(got, want):
                rep.violation({"clause": "new_frame_column_not_preferred_to_callers_name", "pow_issue": False, "site": "LazyVariable.eval"}, {"got": got.tolist(), "want": want.tolist()})
        except Exception as e:  # pylint: disable=broad-except
            rep.violation({"clause": "new_frame_column_not_preferred_to_callers_name", "pow_issue": False, "site": "LazyVariable.eval"}, {"error": str(e)[:120]})
    else:
        rep.violation({"clause": "python_expression_rejected_or_failed", "pow_issue": False, "site": "Call.set_type"}, {"call": "I(x * rate - 1)", "error": str(dm)[:100]})
    # quote style is kept in the name; textual variants are one term, different calls different terms
    for a, b, same in (("g(x,'a')", "g( x , 'a' )", True), ("g(x, 'a')", 'g(x, "a")', False), ("g(x, 1)", "g(x, 1.0)", False), ("g(x, k=1)", "g(x,k = 1)", True)):
        sa, da = design.build("y ~ 0 + " + a, df, extra_namespace=ns)
        sb, db = design.build("y ~ 0 + " + b, df, extra_namespace=ns)
        rep.cov["evaluations"] += 1
        if sa != "ok" or sb != "ok" or (list(da.common.terms) == list(db.common.terms)) != same:
            rep.violation({"clause": "term_name_identity", "pow_issue": False, "site": "LazyCall.__str__"}, {"a": a, "b": b, "names": [list(da.common.terms) if sa == "ok" else sa, list(db.common.terms) if sb == "ok" else sb], "want_same": same})
        if sa == "ok" and "'a'" in a and "'a'" not in list(da.common.terms)[0]:
            rep.violation({"clause": "quote_style_not_preserved", "pow_issue": False}, {"a": a, "name": list(da.common.terms)})
    # different calls written in one formula are different terms (two columns)
    for a, b in (("g(x, k=1)", "g(x, k=2)"), ("g(x, 1)", "g(x, 2)"), ("g(x, 'a')", "g(x, 'b')"), ("g(x)", "g(z)"), ("g(x + 1)", "g(x + 2)"),
                 ("g(x, k=1)", "g(x, j=1)"), ("g(x, k='a')", 'g(x, k="a")'), ("g(x, k=z)", "g(x, k=x)"), ("g(x, 1, k=2)", "g(x, 1, k=3)"), ("g(np.exp(x))", "g(np.log(x))")):
        st, dm = design.build(f"y ~ 0 + {a} + {b}", df, extra_namespace=ns)
        rep.cov["evaluations"] += 1
        if st != "ok" or len(dm.common.terms) != 2 or np.asarray(dm.common).shape[1] != 2:
            rep.violation({"clause": "different_calls_are_one_term", "pow_issue": False, "site": "LazyCall.__eq__ / __hash__"}, {"formula": f"y ~ 0 + {a} + {b}", "status": st, "terms": list(dm.common.terms) if st == "ok" else str(dm)[:120]})
    # {expr} is exactly I(expr)
    for e in ("x + 1", "x * z", "(x + z) / 2", "x ** 2", "x - z * 3"):
        s1, d1 = design.build("y ~ 0 + {" + e + "}", df)
        s2, d2 = design.build("y ~ 0 + I(" + e + ")", df)
        rep.cov["evaluations"] += 1
        if s1 != "ok" or s2 != "ok" or not np.allclose(np.asarray(d1.common), np.asarray(d2.common)) or list(d1.common.terms) != list(d2.common.terms) or not np.allclose(np.asarray(d1.common)[:, 0], eval(e, {}, {"x": df["x"], "z": df["z"]})):  # pylint: disable=eval-used
            rep.violation({"clause": "braces_differ_from_I", "pow_issue": False}, {"expr": e})


KINDS_Q = ["IDENTIFIER", "NUMBER", "PLUS", "MINUS", "STAR", "SLASH", "STAR_STAR", "LEFT_PAREN", "RIGHT_PAREN", "LESS"]
KINDS_7 = ["IDENTIFIER", "NUMBER", "PLUS", "STAR", "STAR_STAR", "LEFT_PAREN", "RIGHT_PAREN"]


def main(tier, seed):
    common.use_repo()
    rep = Report("C12", tier, seed)
    rep.rule = (
        "S->C: every argument token string up to 5 (quick) / 6 (thorough) tokens over {name, number, + - * / ** ( ) <} that is a "
        "Python expression, rendered with recording operands and evaluated through formulae and through CPython's eval; "
        "C->S: random expressions (depth <= 6) whose received operator tree is judged by PyExpr_Trace; fixed checks of literals, "
        "keyword arguments, nested calls, quote style and {e} = I(e). Non-trivial = distinct expressions with >= 2 operators / >= 7 tokens."
    )
    rep.assumptions = ["chained comparisons, keyword repetition and operators formulae does not scan (// % @ & and not) are outside the domain", "the spec's Python tree is cross-checked with the ast module on every case"]
    if tier == "quick":
        mc_and_replay(rep, KINDS_Q, 5, seed, sample=6000)
        mc_and_replay(rep, KINDS_7, 7, seed, sample=5000)
        traces(rep, 1500, 5, seed)
    else:
        mc_and_replay(rep, KINDS_Q, 6, seed, sample=60000)
        mc_and_replay(rep, KINDS_7, 7, seed, sample=60000)
        traces(rep, 40000, 6, seed)
    fixed_checks(rep)
    rep.exhaustive = not rep.notes.get("s2c_replay_sampled", False)
    return rep.finish()
