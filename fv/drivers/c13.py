"""C13 Contrast codings are valid, honour their options, and are interchangeable."""
import itertools
import os
import random
import shutil

import numpy as np
import pandas as pd

from fv import common, design, tlc
from fv.drivers import c03
from fv.report import Report

NAMES = ["a", "b", "c", "d", "e", "f", "g", "h", "i", "j", "k", "l", "m", "n", "o", "p"]
# level values need not be strings: integers, with 0 (a value that is false in Python) not in first place
NAMESETS = {"str": NAMES, "int": [-1, 0, 1, 2, 3, 4, 5, 6, 7, 8, 9, 10, 11, 12, 13, 14],
            # integers whose text order differs from their numeric order (2 < 7 < 10 < 12 < 100, but '10' < '100' < '12' < '2' < '7')
            "wide": [2, 7, 10, 12, 100, 101, 120, 1000, 1001, 1002, 1010, 1100, 2000, 2001, 2010, 3000]}


def real_matrices(n, pos, kind="str"):
    from formulae.categorical import Sum, Treatment

    levels = NAMESETS[kind][:n]
    out = {}
    for key, obj, meth in (
        ("tr", Treatment(levels[pos - 1]), "code_without_intercept"),
        ("tf", Treatment(levels[pos - 1]), "code_with_intercept"),
        ("sr", Sum(levels[pos - 1]), "code_without_intercept"),
        ("sf", Sum(levels[pos - 1]), "code_with_intercept"),
    ):
        cm = getattr(obj, meth)(list(levels))
        labels = [0 if l == "mean" else [str(x) for x in levels].index(l) + 1 for l in cm.labels]
        out[key] = {"m": design.to_int_matrix(cm.matrix) if cm.matrix.shape[1] else [[] for _ in range(n)], "labels": labels}
    # an encoding object is a value: using it for another set of levels first must not change what it does here
    out["reuse_ok"] = True
    other = [levels[pos - 1]] + [x for x in NAMESETS[kind][:n + 2][::-1] if x != levels[pos - 1]]
    for cls, meth, key in ((Treatment, "code_without_intercept", "tr"), (Treatment, "code_with_intercept", "tf"), (Sum, "code_without_intercept", "sr"), (Sum, "code_with_intercept", "sf")):
        for first in (cls(levels[pos - 1]), cls()):
            explicit = first.__dict__.get("reference", first.__dict__.get("omit")) is not None
            try:
                getattr(first, meth)(list(other))
                if n >= 2:
                    getattr(first, meth)([levels[pos - 1]] + [x for x in levels if x != levels[pos - 1]][::-1])   # as many levels, the chosen one elsewhere
                again = getattr(first, meth)(list(levels))
                fresh = getattr(cls(levels[pos - 1]) if explicit else cls(), meth)(list(levels))
                out["reuse_ok"] = out["reuse_ok"] and np.array_equal(np.asarray(again.matrix), np.asarray(fresh.matrix)) and list(again.labels) == list(fresh.labels)
            except Exception:  # pylint: disable=broad-except
                out["reuse_ok"] = False
    # defaults: reference = first level, omitted = last level
    out["default_ok"] = True
    if pos == 1:
        d = Treatment().code_without_intercept(list(levels))
        out["default_ok"] = out["default_ok"] and np.array_equal(d.matrix, np.asarray(Treatment(levels[0]).code_without_intercept(list(levels)).matrix))
    if pos == n:
        d = Sum().code_without_intercept(list(levels))
        out["default_ok"] = out["default_ok"] and np.array_equal(d.matrix, np.asarray(Sum(levels[-1]).code_without_intercept(list(levels)).matrix))
    return out


def spec_vs_code(rep, maxn):
    tmp = tlc.scratch_dir("fv_c13_")
    try:
        out = os.path.join(tmp, "c.ndjson")
        cfg = common.write_cfg(os.path.join(tmp, "c.cfg"), constants={"MaxN": maxn, "DoExport": True}, invariants=["TreatmentValid", "SumValid", "Export"])
        res = tlc.run_tlc("Coding_MC", cfg=cfg, env={"FV_OUT": out}, workers=4, heap="4g", timeout=1800, allow_violation=True)
        rep.add_tlc(f"Coding_MC maxn={maxn}", res)
        if res.violated:
            rep.violation({"clause": "spec_level:" + ",".join(res.violated), "site": "Coding.tla"}, {"tlc_tail": res.out[-2000:]})
            return {}
        table = {}
        for c in tlc.read_export(out):
            table[(c["n"], c["pos"])] = c
            rep.cov["evaluations"] += 1
            rep.nontrivial_key(f"S:{c['n']}:{c['pos']}")
            for kind in NAMESETS:
                real = real_matrices(c["n"], c["pos"], kind)
                for key in ("tr", "tf", "sr", "sf"):
                    want_m = [list(r) for r in c[key]["m"]]
                    if real[key]["m"] != want_m or real[key]["labels"] != list(c[key]["labels"]):
                        rep.violation({"clause": "contrast_matrix_differs_from_spec", "coding": key, "site": "formulae.categorical"}, {"n": c["n"], "pos": c["pos"], "level_values": kind, "got": real[key], "want": c[key]})
                if not real["reuse_ok"]:
                    rep.violation({"clause": "encoding_object_remembers_earlier_levels", "site": "formulae.categorical"}, {"n": c["n"], "pos": c["pos"], "level_values": kind})
                if not real["default_ok"]:
                    rep.violation({"clause": "default_reference_or_omitted_level", "site": "formulae.categorical"}, {"n": c["n"], "pos": c["pos"], "level_values": kind})
        c0 = table.get((3, 2))
        if c0:
            rep.sample({"kind": "S->C coding case", "n": 3, "reference_or_omitted": 2, "treatment_reduced": c0["tr"], "sum_reduced": c0["sr"]})
        return table
    finally:
        shutil.rmtree(tmp, ignore_errors=True)


def judge_real(rep, maxn):
    events = []
    for n in range(1, maxn + 1):
        for pos in range(1, n + 1):
            real = real_matrices(n, pos)
            for key, kind, full in (("tr", "treatment", False), ("tf", "treatment", True), ("sr", "sum", False), ("sf", "sum", True)):
                events.append({"id": len(events) + 1, "kind": kind, "full": full, "n": n, "pos": pos, "m": real[key]["m"], "labels": real[key]["labels"]})
    tmp = tlc.scratch_dir("fv_c13t_")
    try:
        path = os.path.join(tmp, "t.ndjson")
        common.write_ndjson(path, events)
        res = tlc.run_tlc("Coding_Trace", env={"FV_TRACE": path}, workers=1, heap="4g", timeout=1800)
        rep.add_tlc("Coding_Trace", res)
        if not any(v[1] == "done" and v[2] == len(events) for v in res.fv):
            raise tlc.TLCFailure("Coding_Trace did not consume the whole trace")
        rep.cov["traces_validated_against_impl"] += len(events)
        rep.cov["evaluations"] += len(events)
        for v in res.fv:
            if v[1] == "bad":
                e = events[v[2] - 1]
                rep.violation({"clause": v[3], "judge": "Coding_Trace", "site": "formulae.categorical"}, e)
        for e in events:
            rep.nontrivial_key(f"T:{e['kind']}:{e['full']}:{e['n']}:{e['pos']}")
    finally:
        shutil.rmtree(tmp, ignore_errors=True)


def _options_case(args):
    """C/T/S with levels= (a permutation), reference / omitted level, with and without intercept."""
    perm, pos, seed, table, kind = args
    n = len(perm)
    rng = random.Random(seed + hash(perm) + pos)
    lv = [NAMESETS[kind][p] for p in perm]  # the order given through levels=
    vals = [rng.choice(lv) for _ in range(3 * n)] + lv
    rng.shuffle(vals)
    df = pd.DataFrame({"v": vals, "y": range(len(vals))})
    # how the column is stored must not matter once levels= is given: plain strings, an unordered
    # categorical, or an ORDERED categorical whose own category order differs from levels=
    storage = rng.choice(["str", "categorical", "ordered", "ordered"])
    if storage == "categorical":
        df["v"] = pd.Categorical(vals, categories=sorted(lv, reverse=True))
    elif storage == "ordered":
        own = sorted(lv)
        if own == lv:
            own = own[::-1]
        df["v"] = pd.Categorical(vals, categories=own, ordered=True)
    ref = lv[pos - 1]
    q = repr(ref)  # how the reference is written in the formula: 'a' / 0
    spec = table[(n, pos)]
    spec_first = table[(n, 1)]
    spec_last = table[(n, n)]
    forms = [
        (f"C(v, Treatment({q}), levels=LV)", "tr", "tf", spec),
        (f"T(v, {q}, LV)", "tr", "tf", spec),
        (f"T(v, ref={q}, levels=LV)", "tr", "tf", spec),
        (f"C(v, Sum({q}), levels=LV)", "sr", "sf", spec),
        (f"S(v, {q}, LV)", "sr", "sf", spec),
        ("C(v, levels=LV)", "tr", "tf", spec_first),  # first level is the default reference
        ("C(v, Treatment, levels=LV)", "tr", "tf", spec_first),
        ("T(v, levels=LV)", "tr", "tf", spec_first),
        ("C(v, Sum, levels=LV)", "sr", "sf", spec_last),  # last level is omitted by default
        # C() of a box keeps the box's coding and takes the new levels
        (f"C(S(v, {q}), levels=LV)", "sr", "sf", spec),
        (f"C(T(v, {q}), levels=LV)", "tr", "tf", spec),
        ("C(C(v, Sum), levels=LV)", "sr", "sf", spec_last),
        (f"C(C(v, levels=LV), Sum({q}))", "sr", "sf", spec),
        ("S(v, levels=LV)", "sr", "sf", spec_last),
    ]
    probs = []
    idx = [lv.index(x) for x in vals]
    # without levels= the levels are the sorted values (numbers in numeric order): the reference / omitted level is given
    # by its value, the defaults are the smallest / the largest
    slv = sorted(lv)
    spos = slv.index(ref) + 1
    if storage == "str" and kind != "str":
        sidx = [slv.index(x) for x in vals]
        for call, red_key, full_key, sp in ((f"C(v, Treatment({q}))", "tr", "tf", table[(n, spos)]), (f"T(v, {q})", "tr", "tf", table[(n, spos)]), (f"S(v, {q})", "sr", "sf", table[(n, spos)]),
                                            ("C(v)", "tr", "tf", table[(n, 1)]), ("T(v)", "tr", "tf", table[(n, 1)]), ("S(v)", "sr", "sf", table[(n, n)]), ("C(v, Sum)", "sr", "sf", table[(n, n)])):
            for icpt, key in ((True, red_key), (False, full_key)):
                text = "y ~ " + ("" if icpt else "0 + ") + call
                st, dm = design.build(text, df)
                base = {"formula": text, "data": vals, "storage": storage, "levels_arg": None}
                if st != "ok":
                    probs.append(({"clause": "exception_on_valid_coding_options", "exc": type(dm).__name__}, dict(base, error=str(dm)[:150])))
                    continue
                x = design.to_int_matrix(np.asarray(dm.common.design_matrix))
                m = [list(r) for r in sp[key]["m"]]
                want = [([1] if icpt else []) + m[i] for i in sidx]
                labels = list(dm.common.as_dataframe().columns)
                name = dm.common.terms[list(dm.common.terms)[-1]].name
                want_labels = (["Intercept"] if icpt else []) + [f"{name}[{'mean' if l == 0 else slv[l - 1]}]" for l in sp[key]["labels"]]
                if x != want:
                    probs.append(({"clause": "default_level_order_or_coding_option_not_honoured", "call": call.split("(")[0] + ":" + key}, dict(base, got=x[:6], want=want[:6])))
                elif labels != want_labels:
                    probs.append(({"clause": "labels_do_not_name_the_levels", "call": call.split("(")[0] + ":" + key}, dict(base, got=labels, want=want_labels)))
    # levels= that do not cover the data are refused: an observed value left out, with or without an
    # unobserved value put in its place (the two sets are then incomparable)
    if pos == 1 and n >= 2:
        stranger = "zz" if kind == "str" else 99999
        for bad, why in ((lv[:-1], "observed_value_missing"), (lv[:-1] + [stranger], "observed_value_replaced_by_unobserved")):
            for call in ("C(v, levels=LV)", "T(v, levels=LV)", "S(v, levels=LV)"):
                st, dm = design.build("y ~ " + call, df, extra_namespace={"LV": bad})
                if st == "ok":
                    probs.append(({"clause": "levels_not_covering_the_data_accepted", "call": call.split("(")[0], "why": why}, {"formula": "y ~ " + call, "levels_arg": bad, "data": vals, "storage": storage}))
    # a reference / omitted level that is not a level of the factor is refused (never replaced by the default)
    if pos == 1:
        stranger2 = "'zz'" if kind == "str" else "99999"
        for call in (f"T(v, {stranger2})", f"C(v, Treatment({stranger2}))", f"S(v, {stranger2})", f"C(v, Sum({stranger2}), levels=LV)", f"T(v, ref={stranger2}, levels=LV)"):
            # (a full treatment coding has no reference level: only the reduced coding is asked to refuse)
            for pre in (("", "0 + ") if "S" in call.split("(")[0] or "Sum" in call else ("",)):
                st, dm = design.build("y ~ " + pre + call, df, extra_namespace={"LV": lv})
                if st == "ok":
                    probs.append(({"clause": "reference_or_omitted_level_that_is_no_level_accepted", "call": call.split("(")[0]}, {"formula": "y ~ " + pre + call, "levels_arg": lv, "data": vals, "storage": storage, "labels": list(dm.common.as_dataframe().columns)}))
    for call, red_key, full_key, sp in forms:
        for icpt, key in ((True, red_key), (False, full_key)):
            text = "y ~ " + ("" if icpt else "0 + ") + call
            st, dm = design.build(text, df, extra_namespace={"LV": lv})
            base = {"formula": text, "levels_arg": lv, "data": vals, "storage": storage}
            if st != "ok":
                probs.append(({"clause": "exception_on_valid_coding_options", "exc": type(dm).__name__}, dict(base, error=str(dm)[:150])))
                continue
            x = design.to_int_matrix(np.asarray(dm.common.design_matrix))
            m = [list(r) for r in sp[key]["m"]]
            want = [([1] if icpt else []) + m[i] for i in idx]
            labels = list(dm.common.as_dataframe().columns)
            name = dm.common.terms[list(dm.common.terms)[-1]].name
            want_labels = (["Intercept"] if icpt else []) + [f"{name}[{'mean' if l == 0 else lv[l - 1]}]" for l in sp[key]["labels"]]
            if x != want:
                probs.append(({"clause": "coding_option_not_honoured", "call": call.split("(")[0] + ":" + key}, dict(base, got=x[:6], want=want[:6])))
            elif labels != want_labels:
                probs.append(({"clause": "labels_do_not_name_the_levels", "call": call.split("(")[0] + ":" + key}, dict(base, got=labels, want=want_labels)))
    return probs, len(forms) * 2


def options(rep, table, maxn, seed):
    jobs = []
    for n in range(2, maxn + 1):
        for perm in itertools.permutations(range(n)):
            for pos in range(1, n + 1):
                for kind in NAMESETS:
                    jobs.append((perm, pos, seed, table, kind))
    results = common.pool_map(_options_case, jobs)
    for (perm, pos, _, _, kind), (probs, k) in zip(jobs, results):
        rep.cov["evaluations"] += k
        rep.nontrivial_key(f"O:{perm}:{pos}:{kind}")
        for sig, case in probs:
            rep.violation(dict(sig, site="C/T/S"), case)
    rep.count("option_cases", len(jobs))


def main(tier, seed):
    common.use_repo()
    rep = Report("C13", tier, seed)
    rep.rule = (
        "S->C: Coding_MC: every number of levels n <= 11 (quick) / 13 (thorough) x every reference / omitted level: the spec's "
        "matrices must be valid (exact ranks in TLA+) and the real Treatment/Sum matrices must equal them; C->S: the real matrices for "
        "n <= 12 judged by Coding_Trace; options: every permutation of <= 4 (quick) / 5 (thorough) levels passed as levels= x every "
        "reference x string and integer level values (incl. 0) x 10 spellings of C/T/S x with/without intercept compared with the spec's matrix rows and level labels; "
        "interchangeability: C03's exact-rank replay with each factor coded as variable / C / T(ref) / S / Sum. "
        "Non-trivial = distinct (n, position), (permutation, reference) and family cases."
    )
    rep.assumptions = ["interchangeability is decided on complete-factorial data (C03 domain)"]
    table = spec_vs_code(rep, 11 if tier == "quick" else 13)
    judge_real(rep, 13)
    if table:
        options(rep, table, 4 if tier == "quick" else 5, seed)
    fam = c03.export_families(rep, "FactorsDef4", 2, 2)
    c03.replay(rep, fam, seed, ["plain", "C", "TS"], shuffle=True, sample=120 if tier == "quick" else 2000)
    # ... also on non-integer numeric data (a sum- or fully coded factor is an integer matrix: its products with x must not be)
    c03.replay(rep, [c for c in fam if any("x" in t for t in c["terms"])], seed + 1, ["plainq", "TSq", "Cq"], shuffle=True, sample=120 if tier == "quick" else 2000)
    rep.exhaustive = True
    return rep.finish()
