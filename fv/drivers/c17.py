"""C17 Matrix containers are internally consistent."""
from fv import common, design_mc, design_trace
from fv.report import Report


def main(tier, seed):
    common.use_repo()
    rep = Report("C17", tier, seed)
    rep.rule = "Every matrix object produced by Design_MC replays and by random builds / evaluate_new_data chains: slices contiguous from 0 in term order covering all columns, [name] = slice, unknown name refused, as_dataframe / asarray / unpacking / design_matrix agree, labels unique, rows = retained observations, str()/repr() succeed and show the shape. Non-trivial = distinct cases with >= 3 / >= 4 columns."
    rep.assumptions = ["view agreement is computed by the harness (fv/gen.py:matrix_event) and passed to the judge as one boolean"]
    from fv.drivers import c17_objects

    n = 1200 if tier == "quick" else 20000
    design_mc.run(rep, "C17", seed, n=3, nf=3, ng=2)
    design_trace.run(rep, "C17", n, seed, {"nmax": 14, "resps": ["y", "f", "o", ""], "salt": 17})
    # rows = retained observations when rows are dropped (missing values, non-unique / float / unsorted indexes)
    design_trace.run(rep, "C17", n // 4, seed, {"nmax": 14, "resps": ["y", "f"], "salt": 19, "na_rate": 0.12, "na_cols": ("x", "z", "f", "g", "y")})
    # long formulas: ten or more terms (two-digit positions in the slices)
    design_trace.run(rep, "C17", n // 6, seed, {"nmax": 16, "resps": ["y", ""], "salt": 18, "max_terms": 12, "hier": 0.3})
    c17_objects.run(rep, 300 if tier == "quick" else 5000, seed)
    rep.exhaustive = True
    return rep.finish()
