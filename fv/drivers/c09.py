"""C09 Missing-value policy: drop / error / pass."""
from fv import common, design_mc, design_trace
from fv.report import Report

NA_COLS = ("x", "z", "w", "f", "g", "h", "o", "k", "y", "u1", "u2", "b q")


def main(tier, seed):
    common.use_repo()
    rep = Report("C09", tier, seed)
    rep.rule = (
        "S->C: Design_MC frames with one missing cell (used numeric, used categorical, unused column, response) x 3 policies; "
        "C->S: random worlds with missing cells (rate 5-25%) in used and unused columns, variables inside calls and C(), "
        "group terms and the response, 3 policies; TLC computes the incomplete rows from the used variables and judges the "
        "recorded design against the frame with exactly those rows removed (drop), refusal iff any (error), NaN pattern (pass). "
        "Non-trivial = distinct cases with >= 3 / >= 4 design columns."
    )
    rep.assumptions = [
        "categorical NA under na_action='pass' is outside the domain (not judged)",
        "the set of used variables of a generated formula is the set the generator wrote into its text",
    ]
    if tier == "quick":
        design_mc.run(rep, "C09", seed, n=3, nf=3, ng=2, naops=True)
        design_trace.run(rep, "C09", 1500, seed, {"nmax": 14, "na_rate": 0.12, "na_cols": NA_COLS, "policies": ["drop", "drop", "error", "pass"], "salt": 9})
        design_trace.run(rep, "C09", 400, seed, {"nmax": 12, "na_rate": 0.05, "na_cols": ("x", "f"), "policies": ["drop", "error"], "salt": 10,
                                              "callee_cols": ("C", "I", "S", "T", "np", "fk", "scale", "offset")})
        bad_policy(rep)
        infinite_is_not_missing(rep)
    else:
        design_mc.run(rep, "C09", seed, n=4, nf=3, ng=2, naops=True)
        for rate in (0.05, 0.15, 0.3):
            design_trace.run(rep, "C09", 12000, seed, {"nmax": 24, "na_rate": rate, "na_cols": NA_COLS, "policies": ["drop", "error", "pass"], "salt": int(rate * 100)})
        bad_policy(rep)
    rep.exhaustive = True
    return rep.finish()


def infinite_is_not_missing(rep):
    """Only missing values make a row incomplete: an infinite value in a used column is kept under every policy."""
    import numpy as np
    import pandas as pd
    from formulae import design_matrices

    df = pd.DataFrame({"y": [1.0, 2.0, 3.0, 4.0], "x": [0.5, -np.inf, 2.0, np.inf], "g": ["a", "b", "a", "b"]})
    for pol in ("drop", "error", "pass"):
        for text in ("y ~ x", "y ~ np.abs(x) + g", "x ~ g", "y ~ g + (x | g)"):
            rep.cov["evaluations"] += 1
            try:
                dm = design_matrices(text, df, na_action=pol)
                n = (np.asarray(dm.common.design_matrix).shape[0] if dm.common is not None else 4)
                if n != 4:
                    rep.violation({"clause": "row_with_infinite_value_dropped", "site": "design_matrices"}, {"formula": text, "na_action": pol, "rows": int(n)})
            except Exception as e:  # pylint: disable=broad-except
                rep.violation({"clause": "complete_data_refused", "site": "design_matrices", "why": "infinite value"}, {"formula": text, "na_action": pol, "error": str(e)[:100]})


def bad_policy(rep):
    """any other na_action is refused"""
    import pandas as pd
    from fv import design

    from formulae import design_matrices

    # a frame without missing values: an exception can then only be the refusal of the policy itself
    df = pd.DataFrame({"y": [1, 2, 3], "x": [1.0, 2.0, 3.0]})
    # near misses of the three documented spellings included
    for pol in ("omit", "", None, "DROP", "raise", 0, "err", "pas", "rop", "p", "d", "drop ", " pass", "droperror", "Error", True, ["drop"]):
        rep.cov["evaluations"] += 1
        try:
            design_matrices("y ~ x", df, na_action=pol)
        except Exception:  # pylint: disable=broad-except
            continue
        rep.violation({"clause": "unknown_na_action_accepted", "site": "design_matrices"}, {"na_action": repr(pol)})
