"""C02 Term algebra expands operators by Wilkinson-Rogers / lme4 set semantics.

S->C  TermAlgebra_MC enumerates every formula of the documented language up to MaxOps operators
      (stack machine, one state per partial construction), checks that the Impl layer (the
      operator overloads of terms.py) refines the Abs denotation outside the named deviation
      classes, and exports every formula with its Abs denotation; each is rendered to text and
      given to model_description of /repo (with and without a response).
C->S  random deeper formulas are resolved by /repo; TLC (TermAlgebra_Trace) computes the Abs
      denotation of each recorded formula tree and judges the recorded model.
"""
import json
import os
import random
import shutil

from fv import common, tlc
from fv.report import Report

# variable names are written with several characters and as anagrams of each other (x12 / x21, g12 / g21):
# terms are told apart by their factors, not by the letters of their names
ATOM_TEXT = {"a": "x12", "b": "x21", "c": "yy1", "d": "y1y", "F": "f(x, 2)", "H": "np.log(z)", "Q": "`q q`", "g": "g12", "h": "g21", "k": "k",
             # calls that differ from F only in one place (argument value, keyword value, keyword name, callee)
             "K": "f(x, k=2)", "L": "f(x, k=3)", "M": "f(x, j=2)", "N": "f(x, 3)", "O": "f2(x, 2)", "P": "f(z, 2)",
             "R": "f(np.abs(x), 2)", "S": "f(x + 1, 2)",
             # a column whose back-quoted name spells a call; a unary and a binary operator of the same sign on the same operand
             "U": "`f(x, 2)`", "V": "I(-x)", "W": "I(x - z)"}
TEXT_ATOM = {v: k for k, v in ATOM_TEXT.items()}
TEXT_ATOM["q q"] = "Q"
PREC = {"+": 4, "-": 4, "*": 5, "/": 5, ":": 6}

# Impl-layer switches: the values that describe /repo's current tree
IMPL_FLAGS = {"HashBroken": False, "DivByTerms": True, "MulShortcut": False, "CtorDedup": True, "TermBySet": True}


def render(e, ctx=0, right=False):
    """Tree -> formula text with the minimal parentheses the precedence table requires."""
    tag = e[0]
    if tag == "v":
        return ATOM_TEXT[e[1]]
    if tag == "lit":
        return str(e[1])
    if tag == "neg1":
        return "-1"
    if tag == "one":
        return "1"
    if tag == "grp":
        return "(" + render(e[1]) + " | " + render(e[2]) + ")"
    if tag == "pow":
        inner = render(e[1], 7, False)
        s = inner + " ** " + str(e[2])
        return "(" + s + ")" if ctx > 7 or (right and ctx == 7) else s
    if tag == "op":
        p = PREC[e[1]]
        s = render(e[2], p, False) + " " + e[1] + " " + render(e[3], p, True)
        return "(" + s + ")" if p < ctx or (right and p == ctx) else s
    raise ValueError(tag)


def render_rhs(f):
    """The bottom of the chain is the scanner's implicit '1': 'one + x' is written 'x'."""

    def strip(e):
        if e[0] == "op" and e[1] in "+-":
            if e[2] == ["one"]:
                if e[1] == "+":
                    return render(e[3], 4, True)
                return "1 - " + render(e[3], 4, True)
            left = strip(e[2])
            return left + " " + e[1] + " " + render(e[3], 4, True)
        return render(e)

    return strip(f)


def norm_den(d):
    terms = sorted(sorted(t) for t in d["terms"])
    groups = sorted([sorted(e) if e else ["1"], sorted(f)] for e, f in d["groups"])
    return {"icpt": bool(d["icpt"]), "terms": terms, "groups": groups}


def code_den(text):
    """model_description(text) -> ('ok', den) | ('exc', type)."""
    from formulae import model_description
    from fv.project import model_abs

    try:
        m = model_description(text)
    except Exception as e:  # pylint: disable=broad-except
        return "exc", type(e).__name__ + ": " + str(e)[:80], None
    a = model_abs(m)

    def un(names):
        return sorted(TEXT_ATOM.get(n, n) for n in names)

    den = {
        "icpt": a["icpt"],
        "terms": sorted(un(t) for t in a["terms"]),
        "groups": sorted([un(e) if e != ["1"] else ["1"], un(f)] for e, f in a["groups"]),
    }
    return "ok", den, a


def _replay(case):
    f = case["f"]
    want = norm_den(case)
    rhs = render_rhs(f)
    problems = []
    drift = 0
    for text, resp in (("y ~ " + rhs, "y"), (rhs, None)):
        st, den, a = code_den(text)
        judged = not case["order_sensitive"]
        sig = None
        if st == "exc":
            exc_type = den.split(":")[0]
            sig = {"clause": "exception_on_documented_formula", "exc": exc_type, "site": "model_description"}
        else:
            if den != want:
                sig = {"clause": "model_differs_from_expansion", "site": "model_description"}
            elif a["resp"] != resp:
                sig = {"clause": "response_differs", "site": "model_description"}
            elif a.get("bad_names"):
                sig = {"clause": "term_name_differs_from_its_factors", "site": "Term.name"}
        if sig is not None and judged:
            sig["late_literal"] = bool(case["late_literal"])
            sig["mul_equal"] = bool(case["mul_equal"])
            problems.append((sig, {"formula": text, "tree": f, "want": want, "got": den}))
        # drift: does the code do what the Impl layer predicts?
        impl_ok = case["impl_same"]
        code_okk = st == "ok" and den == want
        if impl_ok != code_okk or (case["impl_exc"] != (st == "exc")):
            drift += 1
    return problems, drift, rhs


def mc_and_replay(rep, atoms, maxops, flags=None, timeout=3000, invariants=None):
    flags = dict(IMPL_FLAGS if flags is None else flags)
    tmp = tlc.scratch_dir("fv_c02_")
    try:
        out = os.path.join(tmp, "cases.ndjson")
        consts = {"Atoms": atoms, "GAtoms": ["g", "h"], "HashBad": ["F"], "MaxOps": maxops, "DoExport": True}
        consts.update(flags)
        cfg = common.write_cfg(
            os.path.join(tmp, "TermAlgebra_MC.cfg"),
            constants=consts,
            invariants=invariants or ["Refines", "NoExcOutside", "Laws", "PowLaw", "GroupLaw", "Export"],
            properties=["AddIsUnion"],
        )
        with open(cfg, "a", encoding="utf-8") as fh:
            fh.write("CONSTANT AtomOrder <- AtomOrderDef\n")
        res = tlc.run_tlc("TermAlgebra_MC", cfg=cfg, env={"FV_OUT": out}, workers=16, heap="12g", timeout=timeout, allow_violation=True)
        rep.add_tlc(f"TermAlgebra_MC atoms={len(atoms)} maxops={maxops}", res)
        if res.violated:
            rep.violation({"clause": "spec_level:" + ",".join(res.violated), "site": "TermAlgebra.tla Impl layer"}, {"tlc_tail": res.out[-3000:]})
            return
        cases = tlc.read_export(out)
        results = common.pool_map(_replay, cases)
        for c, (problems, drift, rhs) in zip(cases, results):
            rep.cov["evaluations"] += 2
            rep.cov["impl_drift"] += drift
            if c["order_sensitive"]:
                rep.cov["out_of_domain"] += 1
            if len(c["terms"]) + len(c["groups"]) >= 2:
                rep.nontrivial_key("S:" + rhs)
            for sig, case in problems:
                rep.violation(sig, case)
        rep.count("s2c_formulas", len(cases))
        for c, r in list(zip(cases, results))[:: max(1, len(cases) // 3)][:3]:
            rep.sample({"kind": "S->C case", "formula": "y ~ " + r[2], "expected": norm_den(c)})
    finally:
        shutil.rmtree(tmp, ignore_errors=True)


# ------------------------------------------------------------------ C->S: random deeper trees


def gen_te(rng, depth, atoms):
    if depth <= 0 or rng.random() < 0.25:
        return ["v", rng.choice(atoms)]
    r = rng.random()
    if r < 0.12:
        inner = gen_te(rng, depth - 1, atoms)
        return ["pow", inner, rng.choice([2, 3])]
    op = rng.choice(["+", "+", "-", ":", ":", "*", "*", "/"])
    return ["op", op, gen_te(rng, depth - 1, atoms), gen_te(rng, depth - 1, atoms)]


def size_bound(e):
    """Upper bound on the number of terms an expression expands to (generator-side filter that
    keeps TLC's recursion shallow; not an oracle)."""
    t = e[0]
    if t == "v":
        return 1
    if t == "pow":
        n = size_bound(e[1])
        return n + n * n + (n * n * n if e[2] == 3 else 0)
    if t == "grp":
        return (size_bound(e[1]) + 1) * size_bound(e[2])
    if t == "op":
        l, r = size_bound(e[2]), size_bound(e[3])
        return {"+": l + r, "-": l, ":": l * r, "*": l + r + l * r, "/": l + r}[e[1]]
    return 1


def tractable(e):
    """Every sub-expression expands to at most 40 terms and every power has a base of at most 6
    terms (TLC's denotation of ** enumerates the subsets of the base)."""
    if e[0] in ("v", "lit", "neg1", "one"):
        return True
    if size_bound(e) > 40:
        return False
    if e[0] == "pow":
        return size_bound(e[1]) <= 6 and tractable(e[1])
    if e[0] == "grp":
        return tractable(e[1]) and tractable(e[2])
    return tractable(e[2]) and tractable(e[3])


def gen_rhs(rng, depth):
    while True:
        f = _gen_rhs(rng, depth)
        if tractable(f):
            return f


def _gen_rhs(rng, depth):
    atoms = ["a", "b", "c", "d", "F", "H", "Q"] + rng.sample(["K", "L", "M", "N", "O", "P", "R", "S", "U", "U", "V", "W", "V", "W"], 3)
    n = rng.randint(1, 5)
    f = ["one"]
    first = True
    has_term = False
    for _ in range(n):
        r = rng.random()
        if r < 0.12:
            item = ["lit", rng.choice([0, 1])]
        elif r < 0.17 and first:
            item = ["neg1"]
        elif r < 0.4:
            # group term: effect chain | grouping expression
            eff_items = []
            m = rng.randint(1, 3)
            eff = None
            for j in range(m):
                if j == 0 and rng.random() < 0.35:
                    it = rng.choice([["lit", 0], ["lit", 1], ["neg1"]])
                else:
                    it = gen_te(rng, depth - 2, atoms[:4])
                eff = it if eff is None else ["op", "+", eff, it]
                eff_items.append(it)
            if all(it[0] in ("lit", "neg1") and it != ["lit", 1] for it in eff_items):
                eff = ["op", "+", eff, ["v", "a"]] if eff[0] != "neg1" else ["op", "+", eff, ["v", "a"]]
            gop = rng.random()
            if gop < 0.6:
                g = ["v", rng.choice(["g", "h", "k"])]
            else:
                g = ["op", rng.choice(["+", ":", "/"]), ["v", "g"], ["v", rng.choice(["h", "k"])]]
            item = ["grp", eff, g]
        else:
            item = gen_te(rng, depth, atoms)
        op = "+"
        if has_term and item[0] in ("v", "op", "pow") and rng.random() < 0.2:
            op = "-"
        f = ["op", op, f, item]
        first = False
        has_term = has_term or item[0] in ("v", "op", "pow", "grp")
    return f


def _trace_event(args):
    idx, seed, depth = args
    rng = random.Random((seed * 7919 + idx) & 0xFFFFFFFF)
    f = gen_rhs(rng, rng.randint(1, depth))
    rhs = render_rhs(f)
    text = ("y ~ " if rng.random() < 0.8 else "") + rhs
    st, den, a = code_den(text)
    ev = {"id": idx, "f": f, "exc": st == "exc"}
    if st == "ok":
        ev.update(icpt=den["icpt"], terms=den["terms"], groups=[[e if e != ["1"] else [], g] for e, g in den["groups"]], neg=["<NegatedIntercept>"] in den["terms"])
    else:
        ev.update(icpt=False, terms=[], groups=[], neg=False)
    return ev, text, den if st == "exc" else ""


def traces(rep, n, depth, seed, flags=None):
    flags = dict(IMPL_FLAGS if flags is None else flags)
    results = common.pool_map(_trace_event, [(i, seed, depth) for i in range(n)])
    events = [r[0] for r in results]
    texts = {r[0]["id"]: (r[1], r[2]) for r in results}
    tmp = tlc.scratch_dir("fv_c02t_")
    try:
        path = os.path.join(tmp, "trace.ndjson")
        common.write_ndjson(path, events)
        consts = {"HashBad": ["F"]}
        consts.update(flags)
        cfg = common.write_cfg(os.path.join(tmp, "TermAlgebra_Trace.cfg"), constants=consts, post="Consumed")
        with open(cfg, "a", encoding="utf-8") as fh:
            fh.write("CONSTANT AtomOrder <- AtomOrderDef\n")
        res = tlc.run_tlc("TermAlgebra_Trace", cfg=cfg, env={"FV_TRACE": path}, workers=1, heap="4g", timeout=3000)
        rep.add_tlc("TermAlgebra_Trace", res)
        if not any(v[1] == "done" and v[2] == len(events) for v in res.fv):
            raise tlc.TLCFailure("TermAlgebra_Trace did not consume the whole trace")
        rep.cov["traces_validated_against_impl"] += len(events)
        rep.cov["evaluations"] += len(events)
        evmap = {e["id"]: e for e in events}
        for v in res.fv:
            if v[1] == "bad":
                e = evmap[v[2]]
                sig = {"clause": v[3], "site": "model_description", "judge": "TermAlgebra_Trace", "late_literal": bool(v[4]), "mul_equal": bool(v[5])}
                if e["exc"]:
                    sig["exc"] = texts[v[2]][1].split(":")[0]
                rep.violation(sig, {"formula": texts[v[2]][0], "event": e, "exception": texts[v[2]][1]})
            elif v[1] == "ood":
                rep.cov["out_of_domain"] += 1
            elif v[1] == "drift":
                rep.cov["impl_drift"] += 1
        for e in events:
            if len(e["terms"]) + len(e["groups"]) >= 3:
                rep.nontrivial_key("T:" + texts[e["id"]][0])
        for e in events[:2]:
            rep.sample({"kind": "C->S event", "formula": texts[e["id"]][0], "event": e})
    finally:
        shutil.rmtree(tmp, ignore_errors=True)


def main(tier, seed):
    common.use_repo()
    rep = Report("C02", tier, seed)
    rep.rule = (
        "S->C: every formula of the documented language (TermAlgebra_MC stack machine) up to the operator bound, "
        "run with and without a response; non-trivial = distinct right-hand sides whose expansion has >= 2 terms. "
        "C->S: random formulas (depth <= 7, up to 5 additive items, group terms) judged by TermAlgebra_Trace; "
        "non-trivial = distinct formulas whose model has >= 3 terms."
    )
    rep.assumptions = [
        "a term is the set of its factors; inputs on which the code's own algorithm answers differently once a:b and b:a are identified (OrderSensitive) are not judged",
        "'-' is only applied to chains that already contain a term; '0 - x', '1 - x' are outside the enumerated language",
    ]
    if tier == "quick":
        mc_and_replay(rep, ["a", "b", "F"], 4)
        mc_and_replay(rep, ["F", "K", "N", "R"], 3)   # calls that differ in one argument only (value, keyword, nested call)
        traces(rep, 3000, 5, seed)
    else:
        mc_and_replay(rep, ["a", "b", "c", "F"], 4)
        mc_and_replay(rep, ["a", "F"], 5, timeout=6000)
        mc_and_replay(rep, ["F", "K", "L", "M", "N", "O", "P", "R", "S"], 3)
        traces(rep, 60000, 7, seed)
    rep.exhaustive = True
    return rep.finish()
