"""C14 Stateful transforms satisfy their mathematical contracts (decided in exact rational
arithmetic on small integer inputs; numerical behaviour under large offsets or ill-conditioning
is NOT decided by this technique)."""
import os
import random
import shutil
import warnings
from fractions import Fraction

import numpy as np

from fv import common, tlc
from fv.report import Report

TOL = 1e-9


def fr(q):
    return Fraction(int(q[0]), int(q[1]))


def close(a, q):
    v = float(fr(q))
    return abs(float(a) - v) <= TOL * max(1.0, abs(v))


def _cmp_matrix(got, want, what, probs, base, sig_extra=None):
    got = np.asarray(got, dtype=float)
    if got.ndim == 1:
        got = got[:, None]
    if got.shape != (len(want), len(want[0]) if want else got.shape[1]):
        if len(want) == 0 and got.shape[0] == 0:
            return
        probs.append((dict({"clause": what + "_shape_differs"}, **(sig_extra or {})), dict(base, got_shape=list(got.shape), want_shape=[len(want), len(want[0]) if want else 0])))
        return
    for r, row in enumerate(want):
        for c, q in enumerate(row):
            if not close(got[r, c], q):
                probs.append((dict({"clause": what + "_value_differs_from_exact"}, **(sig_extra or {})), dict(base, row=r, col=c, got=float(got[r, c]), want=f"{q[0]}/{q[1]}")))
                return


def check_poly_case(c):
    from formulae.transforms import Center, Polynomial, Scale

    probs = []
    x = np.array(c["x"], dtype=float)
    later = np.array(c["later"], dtype=float)
    base = {"x": c["x"], "later": c["later"], "degree": c["par"]["degree"]}
    ce = Center()
    _cmp_matrix(ce(x), [[q] for q in c["center"]], "center", probs, base)
    _cmp_matrix(ce(later), [[q] for q in c["center_new"]], "center_later_data", probs, base)
    if abs(np.mean(ce(x))) > TOL:
        probs.append(({"clause": "center_mean_not_zero"}, base))
    if c["scale_sq"]:
        sc = Scale()
        y = sc(x)
        _cmp_matrix(y**2, [[q] for q in c["scale_sq"]], "scale_squared", probs, base)
        y2 = sc(later)
        _cmp_matrix(y2**2, [[q] for q in c["scale_sq_new"]], "scale_later_data_squared", probs, base)
        if [int(np.sign(round(v, 12))) for v in y2] != list(c["scale_sign_new"]):
            probs.append(({"clause": "scale_later_data_sign"}, base))
        if abs(np.mean(y)) > TOL or abs(np.std(y) - 1) > TOL:
            probs.append(({"clause": "scale_not_mean0_sd1"}, base))
    # center and scale do not depend on where the data sit: the same exact values must come out for x + K
    # (K large against the spread: a one-pass variance formula loses all its digits there)
    for K in (10**6, 10**7):
        xs, ls = x + K, later + K
        ce2 = Center()
        if not np.allclose(ce2(xs), [float(fr(q)) for q in c["center"]], rtol=0, atol=1e-6) or not np.allclose(ce2(ls), [float(fr(q)) for q in c["center_new"]], rtol=0, atol=1e-6):
            probs.append(({"clause": "center_not_shift_invariant"}, dict(base, offset=K)))
        if c["scale_sq"]:
            sc2 = Scale()
            y1, y2n = sc2(xs), sc2(ls)
            if (not np.allclose(y1**2, [float(fr(q)) for q in c["scale_sq"]], rtol=1e-5, atol=1e-6) or not np.allclose(y2n**2, [float(fr(q)) for q in c["scale_sq_new"]], rtol=1e-5, atol=1e-6)
                    or abs(np.std(y1) - 1) > 1e-5):
                probs.append(({"clause": "scale_not_shift_invariant_or_not_unit_sd"}, dict(base, offset=K, sd=float(np.std(y1)))))
    d = c["par"]["degree"]
    if d == 1 and c["defined"] and not np.allclose(Polynomial()(x), Polynomial()(x, 1, raw=False), atol=TOL):
        probs.append(({"clause": "poly_defaults_differ_from_documented"}, base))
    # raw powers
    raw = Polynomial()(x, d, raw=True)
    if not np.allclose(raw, np.column_stack([x**k for k in range(1, d + 1)]), rtol=0, atol=TOL):
        probs.append(({"clause": "poly_raw_not_powers"}, base))
    if c["defined"]:
        p = Polynomial()(x, d)
        for i in range(d):
            _cmp_matrix(p[:, i] ** 2, [[q] for q in c["poly_sq"][i]], "poly_squared", probs, dict(base, column=i))
            if [int(np.sign(round(v, 10))) for v in p[:, i]] != list(c["poly_sign"][i]):
                probs.append(({"clause": "poly_sign_differs"}, dict(base, column=i)))
        if p.shape != (len(x), d):
            probs.append(({"clause": "poly_shape"}, base))
        elif not np.allclose(p.T @ p, np.eye(d), atol=1e-8) or not np.allclose(p.sum(axis=0), 0, atol=1e-8):
            probs.append(({"clause": "poly_not_orthonormal_or_not_orthogonal_to_constant"}, base))
    probs.extend(_through_formula(c, x, later, base))
    return probs, "ok" if c["defined"] else "degenerate"


def _through_formula(c, x, later, base):
    """The same contracts reached the way a user reaches them: the names center / scale / standardize /
    poly written in a formula, the design built on x and then evaluated on the later data.  The values
    must be those of the transform objects judged above (same affine map, same basis)."""
    import pandas as pd

    from formulae import design_matrices
    from formulae.transforms import Center, Polynomial, Scale

    probs = []
    d = c["par"]["degree"]
    train = pd.DataFrame({"y": np.arange(len(x), dtype=float), "x": x})
    new = pd.DataFrame({"x": later})
    names = [("center(x)", Center, {})]
    if c["scale_sq"]:
        names += [("scale(x)", Scale, {}), ("standardize(x)", Scale, {})]
    if c["defined"]:
        names += [(f"poly(x, {d})", Polynomial, {"degree": d}), (f"poly(x, {d}, raw=True)", Polynomial, {"degree": d, "raw": True})]
    for text, cls, kw in names:
        obj = cls()
        want_tr = np.asarray(obj(x, **kw), dtype=float).reshape(len(x), -1)
        want_new = np.asarray(obj(later, **kw), dtype=float).reshape(len(later), -1)
        try:
            dm = design_matrices("y ~ 0 + " + text, train)
            got_tr = np.asarray(dm.common.design_matrix, dtype=float).reshape(len(x), -1)
            got_new = np.asarray(dm.common.evaluate_new_data(new).design_matrix, dtype=float).reshape(len(later), -1)
        except Exception as e:  # pylint: disable=broad-except
            probs.append(({"clause": "exception_through_formula", "call": text.split("(")[0], "exc": type(e).__name__}, dict(base, formula=text, error=str(e)[:120])))
            continue
        if got_tr.shape != want_tr.shape or not np.allclose(got_tr, want_tr, rtol=0, atol=TOL):
            probs.append(({"clause": "training_values_through_formula_differ", "call": text.split("(")[0]}, dict(base, formula=text)))
        elif got_new.shape != want_new.shape or not np.allclose(got_new, want_new, rtol=0, atol=TOL):
            probs.append(({"clause": "later_data_through_formula_not_the_training_map", "call": text.split("(")[0]}, dict(base, formula=text, got=got_new.tolist()[:4], want=want_new.tolist()[:4])))
    return probs


def check_bs_case(c):
    from formulae.transforms import BSpline

    probs = []
    x = np.array(c["x"], dtype=float)
    later = np.array(c["later"], dtype=float)
    par = c["par"] if "par" in c else c
    ninner, degree, intercept = par["ninner"], par["degree"], bool(par["intercept"])
    df = ninner + degree + (1 if intercept else 0)
    base = {"x": c["x"], "later": c["later"], "df": df, "degree": degree, "intercept": intercept, "knots": [f"{q[0]}/{q[1]}" for q in c["knots"]]}
    lbo, ubo = int(par.get("lbo", 0)), int(par.get("ubo", 0))
    bounds = {}
    if lbo:
        bounds["lower_bound"] = min(c["x"]) - lbo
    if ubo:
        bounds["upper_bound"] = max(c["x"]) + ubo
    base["bounds"] = dict(bounds)
    ub_val = max(c["x"]) + ubo
    kmax = any(fr(q) == ub_val for q in c["knots"])
    kmin = any(fr(q) == min(c["x"]) - lbo for q in c["knots"])
    sig = {"knot_at_upper_bound": bool(kmax), "knot_at_lower_bound": bool(kmin)}
    try:
        b = BSpline()
        tr = b(x, df=df, degree=degree, intercept=intercept, **bounds)
        if degree == 3 or not intercept:
            # the documented defaults (degree=3, intercept=False) left out
            kwd = dict(bounds, df=df)
            if degree != 3:
                kwd["degree"] = degree
            if intercept:
                kwd["intercept"] = True
            if not np.allclose(BSpline()(x, **kwd), tr, atol=TOL):
                probs.append((dict({"clause": "bs_defaults_differ_from_documented"}, **sig), dict(base, call=repr(sorted(kwd)))))
        _cmp_matrix(tr, c["train"], "bs", probs, base, sig)
        if len(later):
            nw = b(later, df=df, degree=degree, intercept=intercept, **bounds)
            _cmp_matrix(nw, c["new"], "bs_later_data", probs, base, sig)
        # the same knots given explicitly
        b2 = BSpline()
        tr2 = b2(x, knots=[float(fr(q)) for q in c["knots"]], degree=degree, intercept=intercept, **bounds)
        if not np.allclose(tr2, tr, atol=TOL):
            probs.append((dict({"clause": "bs_explicit_knots_differ_from_df"}, **sig), base))
        # a long vector (the same values many times over, shuffled) with those knots and bounds: every row is a
        # function of its own x only, so the exact rows of the short vector must come out, row by row
        reps = 17 + len(x) % 5
        order = np.random.RandomState(len(x) * 7 + degree).permutation(len(x) * reps)
        xl = np.tile(x, reps)[order]
        b3 = BSpline()
        kw3 = dict(knots=[float(fr(q)) for q in c["knots"]], degree=degree, intercept=intercept,
                   lower_bound=bounds.get("lower_bound", float(min(c["x"]))), upper_bound=bounds.get("upper_bound", float(max(c["x"]))))
        tl = b3(xl, **kw3)
        if np.asarray(tl).shape != (len(xl), np.asarray(tr2).shape[1]) or not np.allclose(tl, np.tile(np.asarray(tr2, dtype=float), (reps, 1))[order], atol=TOL):
            probs.append((dict({"clause": "bs_long_vector_rows_differ_from_short_vector"}, **sig), dict(base, rows=int(len(xl)))))
        # the basis is unchanged when x, knots and bounds are divided by a common number: done with the knots' greatest
        # common divisor, the knots stay integers (and are handed over as an integer array) while the bounds become fractions
        ksf = [fr(q) for q in c["knots"]]
        if ksf and all(kq.denominator == 1 for kq in ksf):
            from functools import reduce
            from math import gcd

            dd = reduce(gcd, [abs(int(kq)) for kq in ksf])
            lo_i, hi_i = int(bounds.get("lower_bound", min(c["x"]))), int(bounds.get("upper_bound", max(c["x"])))
            if dd >= 2 and (lo_i % dd or hi_i % dd):
                t4 = BSpline()(x / dd, knots=np.array([int(kq) // dd for kq in ksf], dtype=np.int64), degree=degree, intercept=intercept, lower_bound=lo_i / dd, upper_bound=hi_i / dd)
                if np.asarray(t4).shape != np.asarray(tr2).shape or not np.allclose(t4, tr2, atol=TOL):
                    probs.append((dict({"clause": "bs_not_invariant_under_rescaling_with_integer_knots"}, **sig), dict(base, divisor=dd)))
        if np.asarray(tr).shape[1] != df:
            probs.append((dict({"clause": "bs_column_count"}, **sig), dict(base, got=int(np.asarray(tr).shape[1]))))
        if np.min(tr) < -TOL:
            probs.append((dict({"clause": "bs_negative_value"}, **sig), base))
        if intercept and not np.allclose(np.sum(tr, axis=1), 1, atol=1e-8):
            probs.append((dict({"clause": "bs_rows_do_not_sum_to_one"}, **sig), dict(base, row_sums=[round(float(v), 6) for v in np.sum(tr, axis=1)])))
    except Exception as e:  # pylint: disable=broad-except
        probs.append((dict({"clause": "bs_exception_on_valid_parameters", "exc": type(e).__name__}, **sig), dict(base, error=str(e)[:120])))
    return probs, "ok"


def check_decision_case(c):
    from formulae.transforms import BSpline

    p = c["par"]
    derived_outside = False
    if not p["knots_inside"] and p["nk"] < 1:
        # no knots given: the knots are percentiles of the data, and they fall outside the boundary knots
        # when an explicit bound lies inside the data range - possible only if df asks for an inner knot
        n_inner = p["df"] - (p["degree"] + 1) + (0 if p["intercept"] else 1) if (p["df"] != -1 and p["df_is_int"] and p["degree_is_int"]) else 0
        if p["nk"] == 0 or n_inner < 1:
            return [], "skip"
        derived_outside = True
    x = np.arange(10, dtype=float)
    kw = {}
    if p["df"] != -1:
        kw["df"] = p["df"] if p["df_is_int"] else float(p["df"]) + 0.5
    elif not p["df_is_int"]:
        return [], "skip"
    if p["nk"] != -1:
        ks = [1.5 + 1.5 * j for j in range(p["nk"])]
        if not p["knots_inside"]:
            ks[-1] = 100.0
        kw["knots"] = ks
    kw["degree"] = p["degree"] if p["degree_is_int"] else float(p["degree"]) + 0.5
    kw["intercept"] = bool(p["intercept"])
    if not p["bounds_ok"]:
        # lower > upper: both bounds given, or one bound given beyond the far end of the data (0..9)
        which = (p["df"] + p["degree"] + (1 if p["intercept"] else 0)) % 3
        if which == 0:
            kw["lower_bound"], kw["upper_bound"] = 9.0, 0.0
        elif which == 1:
            kw["lower_bound"] = 100.0
        else:
            kw["upper_bound"] = -2.0
    elif derived_outside:
        kw["lower_bound"] = 8.5   # above every percentile knot of 0..9
    base = {"call": {k: (v if not isinstance(v, list) else v) for k, v in kw.items()}, "spec": c["abs"]}
    try:
        with warnings.catch_warnings():
            warnings.simplefilter("ignore")
            out = BSpline()(x, **kw)
        status = "accept"
    except Exception as e:  # pylint: disable=broad-except
        status = "refuse"
        base["error"] = type(e).__name__ + ": " + str(e)[:80]
    probs = []
    if status != c["abs"]:
        probs.append(({"clause": "invalid_parameters_not_refused" if c["abs"] == "refuse" else "valid_parameters_refused"}, base))
    elif status == "accept" and np.asarray(out).shape[1] != c["columns"]:
        probs.append(({"clause": "bs_column_count"}, dict(base, got=int(np.asarray(out).shape[1]), want=c["columns"])))
    drift = status != c["impl"]
    return probs, "drift" if drift else "ok"


def _replay(c):
    if c["mode"] == "poly":
        return check_poly_case(c)
    if c["mode"] == "bs":
        return check_bs_case(c)
    return check_decision_case(c)


def mc(rep, mode, consts, timeout=3000):
    tmp = tlc.scratch_dir("fv_c14_")
    try:
        out = os.path.join(tmp, "cases.ndjson")
        c = {"MinLen": 3, "MaxLen": 4, "MaxVal": 3, "MaxDegree": 3, "DoExport": True, "Mode": mode}
        c.update(consts)
        cfg = common.write_cfg(os.path.join(tmp, "c.cfg"), constants=c, invariants=["CenterScale", "Poly", "BS", "Decision", "Export"])
        res = tlc.run_tlc("Transforms_MC", cfg=cfg, env={"FV_OUT": out}, workers=16, heap="12g", timeout=timeout, allow_violation=True)
        rep.add_tlc(f"Transforms_MC mode={mode} {consts}", res)
        if res.violated:
            rep.violation({"clause": "spec_level:" + ",".join(res.violated), "site": "Transforms.tla"}, {"tlc_tail": res.out[-2500:]})
            return
        cases = tlc.read_export(out)
    finally:
        shutil.rmtree(tmp, ignore_errors=True)
    results = common.pool_map(_replay, cases)
    for c, (probs, kind) in zip(cases, results):
        rep.cov["evaluations"] += 1
        if kind in ("skip", "degenerate"):
            rep.cov["out_of_domain"] += 1
        if kind == "drift":
            rep.cov["impl_drift"] += 1
        rep.nontrivial_key(mode + ":" + repr(c.get("x")) + repr(c["par"]))
        for sig, case in probs:
            rep.violation(dict(sig, site="formulae.transforms"), case)
    rep.count(f"s2c_{mode}_cases", len(cases))
    for c in cases[:: max(1, len(cases) // 2)][:1]:
        rep.sample({"kind": f"S->C {mode} case", **{k: c[k] for k in c if k in ("x", "par", "knots", "abs", "columns")}})


def traces(rep, n, seed):
    """Inputs chosen here (longer vectors with ties, more parameters); the spec is the oracle."""
    rng = random.Random(seed)
    events = []
    for i in range(n):
        t = rng.choice(["center", "scale", "poly", "bs", "bs", "bs"])
        m = rng.randint(4, 9)
        x = [rng.randint(0, 6) for _ in range(m)]
        if len(set(x)) < 4:
            x[:4] = rng.sample(range(0, 7), 4)
        later = [rng.randint(0, 7) for _ in range(4)]
        e = {"id": i + 1, "t": t, "x": x, "later": later, "degree": 1, "ninner": 0, "intercept": False, "lbo": 0, "ubo": 0}
        if t == "poly":
            e["degree"] = rng.randint(1, 2)
        if t == "bs":
            e["degree"] = rng.randint(0, 3)
            e["ninner"] = rng.randint(0, 3)
            e["intercept"] = rng.random() < 0.6
            if e["degree"] + e["ninner"] + (1 if e["intercept"] else 0) == 0:
                e["intercept"] = True
            e["lbo"], e["ubo"] = rng.choice([0, 0, 1, 2]), rng.choice([0, 0, 1])
        events.append(e)
    tmp = tlc.scratch_dir("fv_c14t_")
    try:
        path = os.path.join(tmp, "t.ndjson")
        out = os.path.join(tmp, "exp.ndjson")
        common.write_ndjson(path, events)
        res = tlc.run_tlc("Transforms_Trace", env={"FV_TRACE": path, "FV_OUT": out}, workers=1, heap="4g", timeout=2400)
        rep.add_tlc("Transforms_Trace", res)
        if not any(v[1] == "done" and v[2] == len(events) for v in res.fv):
            raise tlc.TLCFailure("Transforms_Trace did not consume the whole trace")
        for v in res.fv:
            if v[1] == "bad":
                raise RuntimeError("a contract fails on the specification itself: event %r" % (events[v[2] - 1],))
        expected = {r["id"]: r for r in tlc.read_export(out)}
    finally:
        shutil.rmtree(tmp, ignore_errors=True)
    from formulae.transforms import Center, Polynomial, Scale

    for e in events:
        r = expected[e["id"]]
        rep.cov["evaluations"] += 1
        rep.cov["traces_validated_against_impl"] += 1
        rep.nontrivial_key("T:" + repr(e))
        x = np.array(e["x"], dtype=float)
        later = np.array(e["later"], dtype=float)
        probs = []
        base = {k: e[k] for k in ("t", "x", "later", "degree", "ninner", "intercept", "lbo", "ubo")}
        if e["t"] == "center":
            ce = Center()
            _cmp_matrix(ce(x), [[q] for q in r["train"]], "center", probs, base)
            _cmp_matrix(ce(later), [[q] for q in r["new"]], "center_later_data", probs, base)
        elif e["t"] == "scale":
            sc = Scale()
            _cmp_matrix(sc(x) ** 2, [[q] for q in r["train"]], "scale_squared", probs, base)
            y2 = sc(later)
            _cmp_matrix(y2**2, [[q] for q in r["new"]], "scale_later_data_squared", probs, base)
            if [int(np.sign(round(v, 12))) for v in y2] != list(r["sign"]):
                probs.append(({"clause": "scale_later_data_sign"}, base))
        elif e["t"] == "poly":
            p = Polynomial()(x, e["degree"])
            for q in range(e["degree"]):
                _cmp_matrix(p[:, q] ** 2, [[v] for v in r["sq"][q]], "poly_squared", probs, dict(base, column=q))
                if [int(np.sign(round(v, 10))) for v in p[:, q]] != list(r["sign"][q]):
                    probs.append(({"clause": "poly_sign_differs"}, dict(base, column=q)))
        else:
            c = {"x": e["x"], "later": r["later"], "par": e, "train": r["train"], "new": r["new"], "knots": r["knots"]}
            probs, _ = check_bs_case(c)
        for sig, case in probs:
            rep.violation(dict(sig, site="formulae.transforms", judge="Transforms_Trace oracle"), case)
    rep.sample({"kind": "C->S transform event", **events[0]})


def main(tier, seed):
    common.use_repo()
    rep = Report("C14", tier, seed)
    rep.rule = (
        "S->C: Transforms_MC in exact rationals: center / scale / poly on every integer vector of length 3..4 over 0..3 x degree 1..3; "
        "bs on every non-constant vector of length 4 over 0..3 (quick) / 4..5 over 0..4 (thorough) x inner knots 0..2 x degree 1..3 x intercept; "
        "the complete decision table of BSpline._initialize (5600 parameter classes); every case replayed into formulae.transforms and "
        "compared with the exact values at 1e-9, and center / scale / standardize / poly also written in a formula (design built, then "
        "evaluated on the later data) against the judged transform objects. C->S: longer vectors with ties (length 4..9 over 0..6) and more parameters, with "
        "Transforms_Trace as exact oracle. Non-trivial = distinct (vector, parameters) cases."
    )
    rep.assumptions = [
        "NOT decided: accuracy of bs / poly under large offsets or ill-conditioning, degree > 3, long vectors (32-bit exact arithmetic; no floats in TLC); for center / scale the exact small-integer values are also demanded of the same data shifted by 1e6 and 1e7 (shift invariance, 1e-5)",
        "poly with degree >= number of distinct values is degenerate and not judged",
        "scale and orthonormal poly values are irrational: their squares and signs are compared",
    ]
    if tier == "quick":
        mc(rep, "poly", {})
        mc(rep, "decision", {})
        mc(rep, "bs", {"MinLen": 4, "MaxLen": 4, "MaxVal": 2})
        traces(rep, 200, seed)
    else:
        mc(rep, "poly", {"MaxLen": 5})
        mc(rep, "decision", {})
        mc(rep, "bs", {"MinLen": 4, "MaxLen": 5, "MaxVal": 4}, timeout=6000)
        traces(rep, 4000, seed)
    rep.exhaustive = True
    return rep.finish()
