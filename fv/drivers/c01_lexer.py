"""Lexer part of C01: every character-class string up to a bound (Lexer_MC) replayed into
formulae.scanner.Scanner."""
import os
import random
import shutil

from fv import common, tlc

CONCRETE = {
    "a": "xyzAbcq", "d": "0123456789", ".": ".", "_": "_", "q": "'", "Q": '"', "b": "`",
    "s": " \t\n\r", "*": "*", "/": "/", "=": "=", "!": "!", "<": "<>", "~": "~",
    "p": "()[]{},+-%:|", "@": "@#$&^?;\\",
}
PUNCT = {
    "(": "LEFT_PAREN", ")": "RIGHT_PAREN", "[": "LEFT_BRACKET", "]": "RIGHT_BRACKET", "{": "LEFT_BRACE",
    "}": "RIGHT_BRACE", ",": "COMMA", "+": "PLUS", "-": "MINUS", "%": "MODULO", ":": "COLON", "|": "PIPE",
}


def _literal_ok(kind, lexeme, literal):
    if kind == "NUMBER":
        want = float(lexeme) if "." in lexeme else int(lexeme)
        return type(literal) is type(want) and literal == want
    if kind == "STRING":
        return literal == lexeme[1:-1]
    return literal is None


def _replay(args):
    case, seed = args
    from formulae.scanner import Scanner

    rng = random.Random(seed ^ (hash(tuple(case["cs"])) & 0xFFFFFFF))
    text = "".join(rng.choice(CONCRETE[c]) for c in case["cs"])
    base = {"cs": case["cs"], "text": text}
    try:
        toks = Scanner(text).scan()
    except Exception as e:  # pylint: disable=broad-except
        return ([], 0 if not case["ok"] else 1, False)
    if not case["ok"]:
        return ([({"clause": "scanner_accepted_non_sentence", "site": "Scanner.scan"}, dict(base, got=[t.kind for t in toks]))], 0, True)
    problems = []
    if toks[-1].kind != "EOF" or toks[-1].lexeme != "":
        problems.append(({"clause": "no_EOF_token", "site": "Scanner.scan"}, base))
    got = toks[:-1]
    want = case["toks"]
    if len(got) != len(want):
        problems.append(({"clause": "token_count_differs", "site": "Scanner.scan"}, dict(base, got=[t.kind for t in got], want=want)))
        return problems, 0, True
    for t, (k, a, b) in zip(got, want):
        if a == 0:
            lex = "1" if k == "NUMBER" else "+"
            lit_ok = (t.literal == 1) if k == "NUMBER" else t.literal is None
        else:
            lex = text[a - 1 : b]
            if k == "PUNCT":
                k = PUNCT[lex]
            elif k == "CMP":
                k = "LESS" if lex == "<" else "GREATER"
            elif k == "CMP_EQUAL":
                k = "LESS_EQUAL" if lex == "<=" else "GREATER_EQUAL"
            lit_ok = _literal_ok(k, lex, t.literal)
        if t.kind != k or t.lexeme != lex:
            problems.append(({"clause": "token_differs", "site": "Scanner.scan"}, dict(base, got=[t.kind, t.lexeme], want=[k, lex])))
            break
        if not lit_ok:
            problems.append(({"clause": "literal_value_differs", "site": "Scanner.scan"}, dict(base, got=[t.kind, t.lexeme, repr(t.literal)])))
            break
    return problems, 0, True


def run(rep, maxlen, seed, quote_strict=True):
    tmp = tlc.scratch_dir("fv_c01l_")
    try:
        out = os.path.join(tmp, "lex.ndjson")
        cfg = common.write_cfg(
            os.path.join(tmp, "Lexer_MC.cfg"),
            constants={"MaxLen": maxlen, "DoExport": True, "QuoteStrict": quote_strict},
            invariants=["Sound", "Complete", "Lossless", "NoOverlap", "AtMostOneTilde", "Progress", "BlankNeutral", "Export"],
        )
        res = tlc.run_tlc("Lexer_MC", cfg=cfg, env={"FV_OUT": out}, workers=16, heap="16g", timeout=3000, allow_violation=True, coverage=True, extra=["-maxSetSize", "40000000"])
        rep.add_tlc(f"Lexer_MC maxlen={maxlen}", res)
        if res.violated:
            rep.violation({"clause": "spec_level:" + ",".join(res.violated), "site": "Lexer.tla Impl layer"}, {"tlc_tail": res.out[-3000:]})
            return
        never = [a for a, (d, t) in res.coverage.items() if t == 0]
        rep.notes["lexer_actions_never_taken"] = never
        cases = tlc.read_export(out)
        results = common.pool_map(_replay, [(c, seed) for c in cases])
        rejected_sentences = 0
        for c, (problems, rej, acc) in zip(cases, results):
            rep.cov["evaluations"] += 1
            rejected_sentences += rej
            if acc:
                rep.nontrivial_key("L:" + "".join(c["cs"]))
            for sig, case in problems:
                rep.violation(sig, case)
        rep.count("lexer_cases", len(cases))
        rep.count("lexer_sentences_rejected_by_code", rejected_sentences)
        rep.cov["impl_drift"] += rejected_sentences
        for c in cases[:: max(1, len(cases) // 2)][:2]:
            rep.sample({"kind": "Lexer S->C case", "cs": "".join(c["cs"]), "ok": c["ok"], "toks": c["toks"]})
    finally:
        shutil.rmtree(tmp, ignore_errors=True)
