"""Lexer part of C01: every character-class string up to a bound (Lexer_MC) replayed into
formulae.scanner.Scanner."""
import os
import random
import shutil

from fv import common, tlc

CONCRETE = {
    "a": "xyzAbcq\u00e9\u03b2", "d": "0123456789", ".": ".", "_": "_", "q": "'", "Q": '"', "b": "`",
    "s": " \t\n\r", "*": "*", "/": "/", "=": "=", "!": "!", "<": "<>", "~": "~",
    "p": "()[]{},+-%:|", "@": "@#$&^?;\\",
}
PUNCT = {
    "(": "LEFT_PAREN", ")": "RIGHT_PAREN", "[": "LEFT_BRACKET", "]": "RIGHT_BRACKET", "{": "LEFT_BRACE",
    "}": "RIGHT_BRACE", ",": "COMMA", "+": "PLUS", "-": "MINUS", "%": "MODULO", ":": "COLON", "|": "PIPE",
}


def _literal_ok(kind, lexeme, literal):
    if kind == "NUMBER":
        want = float(lexeme) if "." in lexeme else int(lexeme)
        return type(literal) is type(want) and literal == want
    if kind == "STRING":
        return literal == lexeme[1:-1]
    return literal is None


def _replay(args):
    case, seed = args
    from formulae.scanner import Scanner

    rng = random.Random(seed ^ (hash(tuple(case["cs"])) & 0xFFFFFFF))
    text = "".join(rng.choice(CONCRETE[c]) for c in case["cs"])
    base = {"cs": case["cs"], "text": text}
    try:
        toks = Scanner(text).scan()
    except Exception as e:  # pylint: disable=broad-except
        return ([], 0 if not case["ok"] else 1, False)
    if not case["ok"]:
        return ([({"clause": "scanner_accepted_non_sentence", "site": "Scanner.scan"}, dict(base, got=[t.kind for t in toks]))], 0, True)
    problems = []
    if toks[-1].kind != "EOF" or toks[-1].lexeme != "":
        problems.append(({"clause": "no_EOF_token", "site": "Scanner.scan"}, base))
    got = toks[:-1]
    want = case["toks"]
    if len(got) != len(want):
        problems.append(({"clause": "token_count_differs", "site": "Scanner.scan"}, dict(base, got=[t.kind for t in got], want=want)))
        return problems, 0, True
    for t, (k, a, b) in zip(got, want):
        if a == 0:
            lex = "1" if k == "NUMBER" else "+"
            lit_ok = (t.literal == 1) if k == "NUMBER" else t.literal is None
        else:
            lex = text[a - 1 : b]
            if k == "PUNCT":
                k = PUNCT[lex]
            elif k == "CMP":
                k = "LESS" if lex == "<" else "GREATER"
            elif k == "CMP_EQUAL":
                k = "LESS_EQUAL" if lex == "<=" else "GREATER_EQUAL"
            lit_ok = _literal_ok(k, lex, t.literal)
        if t.kind != k or t.lexeme != lex:
            problems.append(({"clause": "token_differs", "site": "Scanner.scan"}, dict(base, got=[t.kind, t.lexeme], want=[k, lex])))
            break
        if not lit_ok:
            problems.append(({"clause": "literal_value_differs", "site": "Scanner.scan"}, dict(base, got=[t.kind, t.lexeme, repr(t.literal)])))
            break
    return problems, 0, True


def run(rep, maxlen, seed, quote_strict=True):
    tmp = tlc.scratch_dir("fv_c01l_")
    try:
        out = os.path.join(tmp, "lex.ndjson")
        cfg = common.write_cfg(
            os.path.join(tmp, "Lexer_MC.cfg"),
            constants={"MaxLen": maxlen, "DoExport": True, "QuoteStrict": quote_strict},
            invariants=["Sound", "Complete", "Lossless", "NoOverlap", "AtMostOneTilde", "Progress", "BlankNeutral", "Export"],
        )
        res = tlc.run_tlc("Lexer_MC", cfg=cfg, env={"FV_OUT": out}, workers=16, heap="16g", timeout=3000, allow_violation=True, coverage=True, extra=["-maxSetSize", "40000000"])
        rep.add_tlc(f"Lexer_MC maxlen={maxlen}", res)
        if res.violated:
            rep.violation({"clause": "spec_level:" + ",".join(res.violated), "site": "Lexer.tla Impl layer"}, {"tlc_tail": res.out[-3000:]})
            return
        never = [a for a, (d, t) in res.coverage.items() if t == 0]
        rep.notes["lexer_actions_never_taken"] = never
        cases = tlc.read_export(out)
        results = common.pool_map(_replay, [(c, seed) for c in cases])
        rejected_sentences = 0
        for c, (problems, rej, acc) in zip(cases, results):
            rep.cov["evaluations"] += 1
            rejected_sentences += rej
            if acc:
                rep.nontrivial_key("L:" + "".join(c["cs"]))
            for sig, case in problems:
                rep.violation(sig, case)
        rep.count("lexer_cases", len(cases))
        rep.count("lexer_sentences_rejected_by_code", rejected_sentences)
        rep.cov["impl_drift"] += rejected_sentences
        for c in cases[:: max(1, len(cases) // 2)][:2]:
            rep.sample({"kind": "Lexer S->C case", "cs": "".join(c["cs"]), "ok": c["ok"], "toks": c["toks"]})
    finally:
        shutil.rmtree(tmp, ignore_errors=True)


def _scan_event(args):
    """A random character-class string of length 5..40 scanned by the real code."""
    idx, seed = args
    from formulae.scanner import Scanner

    rng = random.Random((seed * 99991 + idx) & 0xFFFFFFFF)
    n = rng.randint(5, 40)
    # mostly well-formed: words, numbers, operators and blanks; quotes and illegal characters are rare
    weights = {"a": 12, "d": 8, ".": 3, "_": 1, "q": 1, "Q": 1, "b": 1, "s": 10, "*": 3, "/": 2, "=": 2, "!": 1, "<": 2, "~": 1, "p": 10, "@": 0.3}
    classes = list(weights)
    cs = rng.choices(classes, weights=[weights[c] for c in classes], k=n)
    # close quotes most of the time
    for qc in ("q", "Q", "b"):
        if cs.count(qc) % 2 == 1 and rng.random() < 0.8:
            cs.append(qc)
    if cs.count("~") > 1 and rng.random() < 0.7:
        first = cs.index("~")
        cs = [c for k, c in enumerate(cs) if c != "~" or k == first]
    text = "".join(rng.choice(CONCRETE[c]) for c in cs)
    ev = {"id": idx, "cs": cs, "ok": False, "toks": []}
    try:
        toks = Scanner(text).scan()
    except Exception:  # pylint: disable=broad-except
        return ev, text, []
    ev["ok"] = True
    # recover positions by walking the text: lexemes in order, blanks skipped; inserted tokens have position 0
    pos = 0
    out = []
    lits = []
    body = toks[:-1]
    tpos = [k for k, t in enumerate(body) if t.kind == "TILDE"]
    # the two inserted tokens: right after the only tilde token, or in front
    ins = {tpos[0] + 1, tpos[0] + 2} if tpos else {0, 1}
    for k, t in enumerate(body):
        if k in ins:
            out.append([t.kind, 0, 0])
            continue
        while pos < len(text) and text[pos] in " \t\n\r":
            pos += 1
        if not t.lexeme or text[pos : pos + len(t.lexeme)] != t.lexeme:
            out.append([t.kind, -1, -1])  # a lexeme that is not at the next non-blank position
            continue
        kind = t.kind
        if kind in PUNCT.values():
            kind = "PUNCT"
        elif kind in ("LESS", "GREATER"):
            kind = "CMP"
        elif kind in ("LESS_EQUAL", "GREATER_EQUAL"):
            kind = "CMP_EQUAL"
        out.append([kind, pos + 1, pos + len(t.lexeme)])
        lits.append(_literal_ok(t.kind, t.lexeme, t.literal) if t.kind in ("NUMBER", "STRING") else True)
        pos += len(t.lexeme)
    ev["toks"] = out
    return ev, text, lits


def traces(rep, n, seed):
    results = common.pool_map(_scan_event, [(i, seed) for i in range(n)])
    events = [r[0] for r in results]
    texts = {r[0]["id"]: r[1] for r in results}
    tmp = tlc.scratch_dir("fv_c01lt_")
    try:
        path = os.path.join(tmp, "t.ndjson")
        common.write_ndjson(path, events)
        res = tlc.run_tlc("Lexer_Trace", env={"FV_TRACE": path}, workers=1, heap="4g", timeout=1800)
        rep.add_tlc("Lexer_Trace", res)
        if not any(v[1] == "done" and v[2] == len(events) for v in res.fv):
            raise tlc.TLCFailure("Lexer_Trace did not consume the whole trace")
        rep.cov["traces_validated_against_impl"] += len(events)
        rep.cov["evaluations"] += len(events)
        emap = {e["id"]: e for e in events}
        for v in res.fv:
            if v[1] == "bad":
                if v[3] == "rejected_sentence":
                    rep.cov["impl_drift"] += 1
                    continue
                rep.violation({"clause": v[3], "site": "Scanner.scan", "judge": "Lexer_Trace"}, {"text": texts[v[2]], "event": emap[v[2]]})
        for (ev, text, lits) in results:
            if ev["ok"] and not all(lits):
                rep.violation({"clause": "literal_value_differs", "site": "Scanner.scan"}, {"text": text})
            if ev["ok"] and len(ev["toks"]) >= 8:
                rep.nontrivial_key("LT:" + "".join(ev["cs"]))
        rep.sample({"kind": "C->S scan event", "text": texts[events[0]["id"]], "event": events[0]})
    finally:
        shutil.rmtree(tmp, ignore_errors=True)
