"""Container invariants (C17) of every matrix object reachable from a design, including those
returned by evaluate_new_data (chains, unseen groups)."""
import random
import warnings

import numpy as np
import pandas as pd

from fv import common, design, design_trace, gen, rows


def object_event(idx, mat, want_rows, tag):
    ev = {"id": idx, "kind": "object", "status": "ok", "slices": [], "ncols": 0, "nrows": 0, "want_rows": want_rows, "views": True, "printed": True, "tag": tag}
    try:
        dmx = np.asarray(mat.design_matrix)
        a = dmx if dmx.ndim == 2 else dmx[:, None]
        ev["ncols"], ev["nrows"] = int(a.shape[1]), int(a.shape[0])
        views = True
        if hasattr(mat, "slices"):
            ev["slices"] = [[s.start, s.stop] for s in mat.slices.values()]
            views = views and list(mat.slices.keys()) == list(mat.terms.keys())
            for name, s in mat.slices.items():
                views = views and np.array_equal(np.asarray(mat[name], dtype=float), np.asarray(a[:, s], dtype=float), equal_nan=True)
            try:
                mat["__no_such_term__"]
                views = False
            except ValueError:
                pass
        else:
            ev["slices"] = [[0, ev["ncols"]]]
        views = views and np.array_equal(np.asarray(np.asarray(mat), dtype=float), np.asarray(dmx, dtype=float), equal_nan=True)
        if hasattr(mat, "as_dataframe"):
            dfv = mat.as_dataframe()
            views = views and dfv.shape == a.shape and len(set(dfv.columns)) == dfv.shape[1]
            views = views and np.array_equal(np.asarray(dfv, dtype=float), np.asarray(a, dtype=float), equal_nan=True)
        ev["views"] = bool(views)
        try:
            txt = str(mat)
            ev["printed"] = bool(str(dmx.shape) in txt and repr(mat) == txt)
        except Exception:  # pylint: disable=broad-except
            ev["printed"] = False
    except Exception as e:  # pylint: disable=broad-except
        ev["status"] = type(e).__name__ + ":" + str(e)[:60]
    return ev


def _events(args):
    idx, seed = args
    from formulae import config

    rng = random.Random((seed * 2713 + idx) & 0xFFFFFFFF)
    w = gen.gen_world(rng, nmin=5, nmax=14)
    resp = rng.choice(["y", "y", "f", "o", "f['a']", ""])
    text = rows.gen_text_formula(rng, groups=True, rich=rng.random() < 0.5)
    text = (resp + " ~ " if resp else "") + text.split("~", 1)[1].strip()
    ns = rows.namespace(w, rng)
    out = []
    if rng.random() < 0.3:
        # seven-digit identifiers stored as floats (an integer column that once held a missing value):
        # their labels differ only in the seventh significant digit and must stay distinct
        ids = [1000001.0 + float(v) for v in w.cols["C(k)"]["v"]]
        w.df["id7"] = np.array(ids, dtype=float)
        text += rng.choice([" + C(id7)", " + (1 | id7)", " + C(id7) + (1 | id7)"])
    st, dm = design.build(text, w.df, extra_namespace=ns)
    if st != "ok":
        return out, text
    base = idx * 20
    n = w.n
    for j, (m, tag) in enumerate(((dm.response, "response"), (dm.common, "common"), (dm.group, "group"))):
        if m is not None:
            out.append(object_event(base + j, m, n, "train:" + tag))
    # tuple protocol and the summary
    try:
        r, c, g = dm
        ok = r is dm.response and c is dm.common and g is dm.group and dm[0] is r and dm[1] is c and dm[2] is g
        txt = str(dm)
        for m in (r, c, g):
            if m is not None:
                ok = ok and str(np.asarray(m.design_matrix).shape) in txt
        out.append({"id": base + 3, "kind": "object", "status": "ok", "slices": [[0, 1]], "ncols": 1, "nrows": 1, "want_rows": 1, "views": bool(ok), "printed": True, "tag": "DesignMatrices"})
    except Exception as e:  # pylint: disable=broad-except
        out.append({"id": base + 3, "kind": "object", "status": type(e).__name__, "slices": [], "ncols": 0, "nrows": 0, "want_rows": 0, "views": False, "printed": False, "tag": "DesignMatrices"})
    # derived objects: subsets, then frames with unseen groups (silent mode), chained
    old = config["EVAL_UNSEEN_CATEGORIES"]
    try:
        config["EVAL_UNSEEN_CATEGORIES"] = "silent"
        cur_c, cur_g = dm.common, dm.group
        for step in range(2):
            k = rng.randint(1, n) if step == 0 or rng.random() < 0.5 else k
            sel = [rng.randrange(n) for _ in range(k)]
            new = w.df.iloc[sel].reset_index(drop=True).copy()
            if rng.random() < 0.6:
                # unseen groups: rename some cells of the grouping variables
                only = rng.choice(["g", "h", "f", None])   # often exactly one factor gets new groups in a step
                for col in ("g", "h", "f"):
                    if (only is None and rng.random() < 0.5) or col == only:
                        s = new[col].astype(object)
                        for r in range(len(s)):
                            if rng.random() < 0.4:
                                s.iloc[r] = "NEW" + str(rng.randint(1, 2))
                        new[col] = s
            with warnings.catch_warnings():
                warnings.simplefilter("ignore")
                for part, cur in (("common", cur_c), ("group", cur_g)):
                    if cur is None:
                        continue
                    try:
                        res = cur.evaluate_new_data(new)
                    except Exception as e:  # pylint: disable=broad-except
                        # silent mode, rows of the training frame with some factor cells renamed: nothing may be refused
                        out.append({"id": base + 4 + step * 4 + (0 if part == "common" else 1), "kind": "object", "status": type(e).__name__ + ":" + str(e)[:60], "slices": [], "ncols": 0, "nrows": 0,
                                    "want_rows": len(new), "views": False, "printed": False, "tag": f"new{step}:{part}"})
                        continue
                    ev_obj = object_event(base + 4 + step * 4 + (0 if part == "common" else 1), res, len(new), f"new{step}:{part}")
                    if part == "group" and ev_obj["status"] == "ok":
                        # which term owns which columns does not depend on the object the evaluation started from: the
                        # training width of each term, plus one block of its effect columns iff the frame holds a new group
                        want, start = [], 0
                        try:
                            for tname, tm in dm.group.terms.items():
                                s0 = dm.group.slices[tname]
                                w0 = s0.stop - s0.start
                                fv_ = sorted(tm.factor.var_names)
                                seen_groups = set(zip(*[w.df[v].astype(str) for v in fv_]))
                                new_groups = set(zip(*[new[v].astype(str) for v in fv_]))
                                wd = w0 + (w0 // len(tm.groups) if new_groups - seen_groups else 0)
                                want.append([start, start + wd])
                                start += wd
                            if ev_obj["slices"] != want:
                                ev_obj["views"] = False
                                ev_obj["tag"] += ":slices_differ_from_term_widths"
                        except Exception:  # pylint: disable=broad-except
                            pass
                    out.append(ev_obj)
                    if part == "common":
                        cur_c = res
                    else:
                        cur_g = res
    finally:
        config["EVAL_UNSEEN_CATEGORIES"] = old
    # another design from the same formula text on other data (other numbers of rows, levels and groups):
    # the containers of the first design must be what they were
    w2 = gen.gen_world(random.Random(rng.random()), nmin=5, nmax=14)
    if "id7" in w.df.columns:
        w2.df["id7"] = np.array([1000001.0 + float(v) for v in w2.cols["C(k)"]["v"]], dtype=float)
    st2, _dm2 = design.build(text, w2.df, extra_namespace=rows.namespace(w2, rng))
    if st2 == "ok":
        for j, (m, tag) in enumerate(((dm.response, "response"), (dm.common, "common"), (dm.group, "group"))):
            if m is not None:
                out.append(object_event(base + 12 + j, m, n, "after_another_design:" + tag))
        with warnings.catch_warnings():
            warnings.simplefilter("ignore")
            for j, (part, cur) in enumerate((("common", dm.common), ("group", dm.group))):
                if cur is None:
                    continue
                try:
                    res = cur.evaluate_new_data(w.df)
                except Exception as e:  # pylint: disable=broad-except
                    out.append({"id": base + 15 + j, "kind": "object", "status": type(e).__name__ + ":" + str(e)[:60], "slices": [], "ncols": 0, "nrows": 0, "want_rows": n, "views": False, "printed": False, "tag": "after_another_design:new:" + part})
                    continue
                out.append(object_event(base + 15 + j, res, n, "after_another_design:new:" + part))
    return out, text


def _alternating_chain(args):
    """Two grouping factors with equally wide terms; the object returned for a frame with a new group of the
    first factor is evaluated on a frame of the same length with a new group of the second factor only."""
    idx, seed = args
    from formulae import config

    rng = random.Random((seed * 7129 + idx) & 0xFFFFFFFF)
    w = gen.gen_world(rng, nmin=6, nmax=12)
    a, b = rng.sample(["g", "h", "f"], 2)
    eff = rng.choice(["1", "x", "x", "0 + x"])
    text = f"y ~ z + ({eff} | {a}) + ({eff} | {b})"
    st, dm = design.build(text, w.df)
    out = []
    if st != "ok" or dm.group is None:
        return out, text
    base = 10_000_000 + idx * 10
    k = rng.randint(2, w.n)
    old = config["EVAL_UNSEEN_CATEGORIES"]
    try:
        config["EVAL_UNSEEN_CATEGORIES"] = "silent"
        cur = dm.group
        for step, col in enumerate((a, b, a)):
            sel = [rng.randrange(w.n) for _ in range(k)]
            new = w.df.iloc[sel].reset_index(drop=True).copy()
            sr = new[col].astype(object)
            sr.iloc[rng.randrange(k)] = "NEW"
            new[col] = sr
            with warnings.catch_warnings():
                warnings.simplefilter("ignore")
                try:
                    res = cur.evaluate_new_data(new)
                except Exception as e:  # pylint: disable=broad-except
                    out.append({"id": base + step, "kind": "object", "status": type(e).__name__ + ":" + str(e)[:60], "slices": [], "ncols": 0, "nrows": 0, "want_rows": k, "views": False, "printed": False, "tag": f"alternating{step}:group"})
                    break
            ev = object_event(base + step, res, k, f"alternating{step}:group")
            want, start = [], 0
            for tname, tm in dm.group.terms.items():
                s0 = dm.group.slices[tname]
                w0 = s0.stop - s0.start
                fv_ = sorted(tm.factor.var_names)
                grown = bool(set(zip(*[new[v].astype(str) for v in fv_])) - set(zip(*[w.df[v].astype(str) for v in fv_])))
                wd = w0 + (w0 // len(tm.groups) if grown else 0)
                want.append([start, start + wd])
                start += wd
            if ev["status"] == "ok" and ev["slices"] != want:
                ev["views"] = False
                ev["tag"] += ":slices_differ_from_term_widths"
            out.append(ev)
            cur = res
    finally:
        config["EVAL_UNSEEN_CATEGORIES"] = old
    return out, text


def run(rep, n, seed):
    results = common.pool_map(_events, [(i, seed) for i in range(n)])
    results += common.pool_map(_alternating_chain, [(i, seed) for i in range(max(40, n // 6))])
    events, texts = [], {}
    for lst, text in results:
        rep.cov["evaluations"] += 1
        for ev in lst:
            events.append(ev)
            texts[ev["id"]] = text
        if len(lst) > 4:
            rep.nontrivial_key("O:" + text)
    design_trace.judge(rep, "C17", events, lambda e: {"formula": texts[e["id"]], "event": e})
    rep.count("objects_checked", len(events))
    for e in events[:2]:
        rep.sample({"kind": "C->S object event", "formula": texts[e["id"]], "event": e})
