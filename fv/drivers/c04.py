"""C04 Every design-matrix column holds exactly what its label says."""
from fv import common, design_mc, design_trace
from fv.report import Report


def order_theorem(rep, maxcomps, maxwidth):
    """DesignOrder.tla: the Kronecker loops of get_interaction_matrix and the itertools.product of the
    labels enumerate the same index tuples in the same order (TLC), and the real functions follow
    the modelled loops (replay with prime-valued columns: a product identifies its index tuple)."""
    import itertools
    import os
    import shutil
    from functools import reduce

    import numpy as np

    from fv import tlc
    from formulae.utils import get_interaction_matrix

    tmp = tlc.scratch_dir("fv_c04o_")
    try:
        out = os.path.join(tmp, "o.ndjson")
        cfg = common.write_cfg(os.path.join(tmp, "c.cfg"), constants={"MaxComps": maxcomps, "MaxWidth": maxwidth, "DoExport": True}, invariants=["SameOrder", "AllDistinct", "GroupOrder", "Export"])
        res = tlc.run_tlc("DesignOrder", cfg=cfg, env={"FV_OUT": out}, workers=4, heap="4g", timeout=900, allow_violation=True)
        rep.add_tlc(f"DesignOrder comps<={maxcomps} width<={maxwidth}", res)
        if res.violated:
            rep.violation({"clause": "spec_level:" + ",".join(res.violated), "site": "DesignOrder.tla"}, {"tlc_tail": res.out[-2000:]})
            return
        cases = tlc.read_export(out)
    finally:
        shutil.rmtree(tmp, ignore_errors=True)
    primes = [2, 3, 5, 7, 11, 13, 17, 19, 23, 29, 31, 37, 41, 43, 47, 53, 59, 61, 67, 71, 73, 79, 83, 89, 97]
    for c in cases:
        rep.cov["evaluations"] += 1
        widths = c["widths"]
        comps, table, k = [], {}, 0
        for ci, w in enumerate(widths):
            cols = []
            for j in range(w):
                table[primes[k]] = (ci, j + 1)
                cols.append(np.full(2, primes[k], dtype=np.int64))
                k += 1
            comps.append(np.column_stack(cols))
        data = reduce(get_interaction_matrix, comps) if len(comps) > 1 else comps[0]
        got = []
        for col in np.asarray(data).T:
            v, tup = int(col[0]), [0] * len(widths)
            for p, (ci, j) in table.items():
                if v % p == 0:
                    tup[ci] = j
            got.append(tup)
        labels = [list(t) for t in itertools.product(*[range(1, w + 1) for w in widths])]
        if got != [list(t) for t in c["data"]]:
            rep.violation({"clause": "interaction_columns_not_in_modelled_order", "site": "formulae.utils.get_interaction_matrix"}, {"widths": widths, "got": got, "want": c["data"]})
        if labels != [list(t) for t in c["labels"]]:
            rep.violation({"clause": "HARNESS_itertools_product_order"}, {"widths": widths})


def explicit_levels(rep):
    """levels= that do not cover the data: the call may only be refused - if a design comes back, a column
    labelled v[l] still has to be the indicator of v = l."""
    import numpy as np
    import pandas as pd

    from fv import design

    k = [1, 2, 3, 1, 2, 3, 2]
    g = ["a", "b", "c", "a", "b", "c", "b"]
    df = pd.DataFrame({"y": np.arange(7.0), "k": k, "g": g, "x": np.arange(7.0) + 1})
    for col, vals, lvs in (("k", k, ([1, 2, 4], [1, 2], [4, 2, 1], [1, 2, 3, 4])), ("g", g, (["a", "b", "d"], ["a", "b"], ["d", "b", "a"], ["a", "b", "c", "d"]))):
        for lv in lvs:
            for text in (f"y ~ 0 + C({col}, levels=LV)", f"y ~ C({col}, levels=LV)", f"y ~ 0 + C({col}, levels=LV):x", f"y ~ x + (1 | C({col}, levels=LV))"):
                rep.cov["evaluations"] += 1
                st, dm = design.build(text, df, extra_namespace={"LV": lv})
                covered = set(vals) <= set(lv)
                if st != "ok":
                    if covered:
                        rep.violation({"clause": "explicit_levels_covering_the_data_refused", "site": "Call.eval_categorical_box"}, {"formula": text, "levels": lv, "error": str(dm)[:100]})
                    continue
                mat = dm.group if "|" in text else dm.common
                labels = [l for t in mat.terms.values() for l in t.labels]
                m = np.asarray(mat.design_matrix, dtype=float)
                xs = np.asarray(df["x"], dtype=float)
                for j, lab in enumerate(labels):
                    if "[" not in lab:
                        continue
                    lvl = lab[lab.rindex("[") + 1 : lab.rindex("]")]
                    ind = np.array([1.0 if str(v) == lvl else 0.0 for v in vals])
                    want = ind * xs if text.endswith(":x") else ind
                    if not np.array_equal(m[:, j], want) and not (text.startswith("y ~ C(") and covered):
                        rep.violation({"clause": "column_is_not_the_indicator_its_label_names", "site": "Call.eval_categorical_box", "levels_cover_data": covered}, {"formula": text, "levels": lv, "label": lab, "column": m[:, j].tolist()})
                        break


def main(tier, seed):
    common.use_repo()
    rep = Report("C04", tier, seed)
    rep.rule = (
        "S->C: every frame of the small scope (Design_MC) x 14 formula shapes, built by /repo and compared cell by cell and "
        "label by label with the Abs design; C->S: random worlds (3-20 rows, 2-4 levels per factor, str / Categorical / "
        "ordered Categorical / integer-via-C columns, numeric calls) x generated formulas, each build judged by Design_Trace, "
        "and the same designs evaluated on new data (all training rows reordered and partly repeated) judged against the same labels; "
        "training designs read only after they were evaluated (and printed) on frames with never-seen levels. "
        "Non-trivial = distinct (formula, data) cases whose design has >= 3 (S->C) / >= 4 (C->S) columns."
    )
    rep.assumptions = [
        "label pieces are parsed with the generator's table of component names and level names (levels contain no ':', '|', '[' or ']')",
        "builds that raise are counted, not judged here (C03/C05 decide coding failures)",
        "sum-coded pieces are decided by C13",
    ]
    order_theorem(rep, 4, 4 if tier == "quick" else 5)
    explicit_levels(rep)
    from fv import callkinds

    callkinds.run(rep, "C04")   # CallKinds.tla: what becomes of the value a call returns
    if tier == "quick":
        design_mc.run(rep, "C04", seed, n=3, nf=3, ng=2)
        design_trace.run(rep, "C04", 900, seed, {"nmax": 16})
        design_trace.run(rep, "C04", 700, seed, {"nmax": 16, "quarters": True, "salt": 44})
        design_trace.run(rep, "C04", 700, seed, {"nmax": 12, "newdata": True, "salt": 45, "hier": 0.4})
        design_trace.run(rep, "C04", 500, seed, {"nmax": 12, "after_unseen": True, "salt": 46})
    else:
        design_mc.run(rep, "C04", seed, n=4, nf=3, ng=2, xfull=False)
        design_mc.run(rep, "C04", seed, n=3, nf=3, ng=3, xfull=True)
        design_trace.run(rep, "C04", 25000, seed, {"nmax": 30, "max_terms": 5})
        design_trace.run(rep, "C04", 15000, seed, {"nmax": 30, "max_terms": 5, "quarters": True, "salt": 44})
        design_trace.run(rep, "C04", 15000, seed, {"nmax": 24, "max_terms": 5, "newdata": True, "salt": 45, "hier": 0.4})
        design_trace.run(rep, "C04", 8000, seed, {"nmax": 24, "max_terms": 5, "after_unseen": True, "salt": 46})
    rep.exhaustive = True
    return rep.finish()
