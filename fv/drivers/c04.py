"""C04 Every design-matrix column holds exactly what its label says."""
from fv import common, design_mc, design_trace
from fv.report import Report


def main(tier, seed):
    common.use_repo()
    rep = Report("C04", tier, seed)
    rep.rule = (
        "S->C: every frame of the small scope (Design_MC) x 14 formula shapes, built by /repo and compared cell by cell and "
        "label by label with the Abs design; C->S: random worlds (3-20 rows, 2-4 levels per factor, str / Categorical / "
        "ordered Categorical / integer-via-C columns, numeric calls) x generated formulas, each build judged by Design_Trace. "
        "Non-trivial = distinct (formula, data) cases whose design has >= 3 (S->C) / >= 4 (C->S) columns."
    )
    rep.assumptions = [
        "label pieces are parsed with the generator's table of component names and level names (levels contain no ':', '|', '[' or ']')",
        "builds that raise are counted, not judged here (C03/C05 decide coding failures)",
        "sum-coded pieces are decided by C13",
    ]
    if tier == "quick":
        design_mc.run(rep, "C04", seed, n=3, nf=3, ng=2)
        design_trace.run(rep, "C04", 1500, seed, {"nmax": 16})
    else:
        design_mc.run(rep, "C04", seed, n=4, nf=3, ng=2, xfull=False)
        design_mc.run(rep, "C04", seed, n=3, nf=3, ng=3, xfull=True)
        design_trace.run(rep, "C04", 40000, seed, {"nmax": 30, "max_terms": 5})
    rep.exhaustive = True
    return rep.finish()
