"""C07 Designs are isolated: no state leaks across evaluations, designs or calls.

Lifecycle.tla models designs as owners of cells and gives every operation a write set; TLC
checks Frozen / HistoryIndependent / ConfigDiscipline over all histories up to a bound and
exports every maximal history as a schedule (S->C).  Schedules and random longer histories are
run against /repo in one process; after each call every cell of every live object, the caller's
frames and namespace and the configuration are re-fingerprinted and the outcome is compared with
the same single operation executed in a fresh process (fork of a pristine template).  TLC
(Lifecycle_Trace) judges each recorded call.
"""
import hashlib
import os
import random
import shutil
import warnings

import numpy as np
import pandas as pd

from fv import cells, common, design, fresh, gen, tlc
from fv.report import Report

FORMULAS = {
    1: "y ~ scale(x) + f + (center(z) | g)",
    2: "y ~ scale(x) + poly(z, 2) + o + f:x + (1 | g)",
    3: "y ~ C(k, levels=KL) + B(g) + standardize(z) + (scale(x) | h)",
    4: "f ~ x + h + bs(z, df=4)",
    5: "y ~ poly(xc, 2) + center(xc) + (scale(xc) | g)",   # training parameters that are exactly zero
    6: "y ~ ustd(x) + ustd(z, shift=1):f + (ustd(x) | h)",     # a user-defined stateful transform from the caller's namespace
    7: "y ~ C(k) + T(k, 2):x + (1 | k)",   # numeric levels: stored as int64 in frame 1 and as float64 in frame 2 (labels 2 / 2.0)
    8: "y ~ binary(u01) + C(f, ENC) + (1 | g)",   # a remembered success level that is 0; an encoding OBJECT from the caller's namespace
    9: "y ~ C(g, ENC) + B(u01, 0):x",             # the same encoding object on a factor with other levels
    10: "y ~ bs(x, knots=KNA, degree=2) + (1 | h)",  # knots handed over as the caller's own (unsorted) numpy array
}
from fv.rows import UserStd  # noqa: E402  pylint: disable=wrong-import-position

def _enc():
    from formulae.categorical import Sum

    return Sum()


NS = {"KL": [1, 2, 3, 10, 20], "ustd": UserStd, "KNA": np.array([2.5, -0.5, 1.0])}   # + "ENC": a Sum() object, created at the first build (importing this module must not import formulae)
_FRAMES = {}


def frames():
    """The caller's DataFrames: 1, 2 training frames; 3 a new frame within the training levels;
    4 a new frame with unseen levels (predictor f, groups g and h)."""
    if _FRAMES:
        return _FRAMES
    for fid, (seed, n) in {1: (11, 9), 2: (12, 13), 3: (13, 6), 4: (14, 7)}.items():
        rng = random.Random(seed)
        w = gen.gen_world(rng, nmin=n, nmax=n, ordered_prob=1.0, distinct=5)
        df = w.df.copy()
        # same level sets everywhere: overwrite the factors with full-level columns
        for col, names in (("f", ["a", "b", "c"]), ("g", ["G1", "G2"]), ("h", ["A x", "B-y", "c"])):
            vals = [names[(i * 7 + seed) % len(names)] for i in range(n)]
            for j, nm in enumerate(names):
                vals[j % n] = nm
            df[col] = np.array(vals, dtype=object)
        df["o"] = pd.Categorical([["lo", "mid", "hi"][(i + seed) % 3] for i in range(n)], categories=["lo", "mid", "hi"], ordered=True)
        df["k"] = np.array([[1, 2, 3][(i * 5 + seed) % 3] for i in range(n)], dtype=np.int64)
        # a 0/1 column; the new frame 3 holds no 0 at all
        df["u01"] = np.array([1] * n if fid == 3 else [(i * 3 + seed) % 2 for i in range(n)], dtype=np.int64)
        if fid != 3:
            df.loc[df.index[0], "u01"], df.loc[df.index[1], "u01"] = 0, 1
        if fid in (2, 4):
            df["k"] = df["k"].astype(float)
        if fid in (3, 4):
            df["xc"] = np.array([(i * 3 + seed) % 5 + 1 for i in range(n)], dtype=np.int64)   # new frames are not centred
        if fid == 4:
            df.loc[df.index[0], "f"] = "zzz"
            df.loc[df.index[1], "g"] = "G9"
            df.loc[df.index[2], "h"] = "H9"
        _FRAMES[fid] = df
    return _FRAMES


def _digest_arr(a):
    a = np.asarray(a, dtype=float)
    return hashlib.blake2b(np.round(a, 10).tobytes() + str(a.shape).encode(), digest_size=8).hexdigest()


def outcome_build(dm):
    parts = []
    for m in (dm.response, dm.common, dm.group):
        if m is None:
            parts.append("none")
            continue
        parts.append(_digest_arr(m.design_matrix))
        if hasattr(m, "slices"):
            parts.append(repr(m.slices))
            parts.append(repr([t.labels for t in m.terms.values()]))
        else:
            parts.append(repr(m.levels) + str(m.kind))
    return "|".join(parts)


def outcome_eval(res):
    return _digest_arr(res.design_matrix) + repr(res.slices) + repr(getattr(res, "factors_with_new_levels", None))


def do_build(f, D):
    with warnings.catch_warnings():
        warnings.simplefilter("ignore")
        from formulae import design_matrices

        if "ENC" not in NS:
            NS["ENC"] = _enc()
        return design_matrices(FORMULAS[f], frames()[D], extra_namespace=NS)


def ref_build(f, D):
    try:
        return "ok", outcome_build(do_build(f, D))
    except Exception as e:  # pylint: disable=broad-except
        return type(e).__name__, ""


def ref_eval(f, D, part, F, mode):
    from formulae import config

    try:
        dm = do_build(f, D)
    except Exception as e:  # pylint: disable=broad-except
        return "build:" + type(e).__name__, ""
    config["EVAL_UNSEEN_CATEGORIES"] = mode
    m = getattr(dm, part)
    if m is None:
        return "no-part", ""
    try:
        with warnings.catch_warnings():
            warnings.simplefilter("ignore")
            return "ok", outcome_eval(m.evaluate_new_data(frames()[F]))
    except Exception as e:  # pylint: disable=broad-except
        return type(e).__name__, ""


def ref_describe(f):
    from formulae import model_description
    from fv.project import model_abs

    return "ok", repr(model_abs(model_description(FORMULAS[f])))


class Runner:
    """Runs histories in this process, recording one event per call."""

    def __init__(self):
        self.server = fresh.FreshServer()
        if "ENC" not in NS:
            NS["ENC"] = _enc()   # the caller's encoding object exists before the history starts
        self.events = []
        self.eid = 0
        self.intern = {}

    def _id(self, s):
        return self.intern.setdefault(s, len(self.intern) + 1)

    def snapshot(self, designs, objs):
        from formulae import config

        from formulae.transforms import TRANSFORMS

        snap = {"config": config["EVAL_UNSEEN_CATEGORIES"], "registry": repr(sorted((k, id(v)) for k, v in TRANSFORMS.items()))}
        for fid, df in frames().items():
            snap[f"frame{fid}"] = cells.frame_digest(df)
        snap["namespace"] = repr(sorted((k, repr(v), repr(sorted(vars(v).items())) if hasattr(v, "__dict__") and not isinstance(v, type) else "") for k, v in NS.items()))
        for k, dm in enumerate(designs):
            if dm is None:
                continue
            for path, dig in cells.cells(dm, f"design{k + 1}").items():
                snap[path] = dig
        for k, o in enumerate(objs):
            if o is None:
                continue
            snap[f"obj{k + 1}.design_matrix"] = cells.digest_value(np.asarray(o.design_matrix))
            snap[f"obj{k + 1}.slices"] = repr(o.slices)
        return snap

    def run(self, hid, ops):
        from formulae import config, model_description

        config["EVAL_UNSEEN_CATEGORIES"] = "error"
        designs, dkeys, objs = [], [], []
        self.eid += 1
        self.events.append({"id": self.eid, "hid": hid, "op": "reset", "v": "", "status": "ok", "ref_status": "ok", "out": 0, "ref": 0, "changed": [], "mode": "error"})
        for op in ops:
            before = self.snapshot(designs, objs)
            mode_before = config["EVAL_UNSEEN_CATEGORIES"]
            status, out, ref_status, ref, v = "ok", "", "ok", "", ""
            kind = op["op"]
            if kind == "build":
                try:
                    dm = do_build(op["f"], op["D"])
                    out = outcome_build(dm)
                    designs.append(dm)
                except Exception as e:  # pylint: disable=broad-except
                    status = type(e).__name__
                    designs.append(None)
                dkeys.append((op["f"], op["D"]))
                ref_status, ref = self.server.call(ref_build, op["f"], op["D"], key=("b", op["f"], op["D"]))
            elif kind == "eval":
                k = op["d"] - 1
                dm = designs[k]
                f, D = dkeys[k]
                part = op["p"]
                if dm is None:
                    status, ref_status = "no-design", "no-design"
                else:
                    m = getattr(dm, part)
                    if m is None:
                        status = "no-part"
                        objs.append(None)
                    else:
                        try:
                            with warnings.catch_warnings():
                                warnings.simplefilter("ignore")
                                res = m.evaluate_new_data(frames()[op["F"]])
                            out = outcome_eval(res)
                            objs.append(res)
                        except Exception as e:  # pylint: disable=broad-except
                            status = type(e).__name__
                            objs.append(None)
                    ref_status, ref = self.server.call(ref_eval, f, D, part, op["F"], mode_before, key=("e", f, D, part, op["F"], mode_before))
            elif kind == "config":
                v = op["v"]
                try:
                    if op.get("key"):
                        config[op["key"]] = v
                    else:
                        config["EVAL_UNSEEN_CATEGORIES"] = v
                except Exception as e:  # pylint: disable=broad-except
                    status = type(e).__name__
                if op.get("key"):
                    v = "badkey:" + str(v)
            elif kind == "register":
                from formulae.transforms import register_stateful_transform

                try:
                    cls = type("UserReg%d" % (self.eid,), (UserStd,), {"__transform_name__": "ureg%d" % (self.eid,)})
                    register_stateful_transform(cls)
                    v = "ureg"
                except Exception as e:  # pylint: disable=broad-except
                    status = type(e).__name__
            elif kind == "print":
                try:
                    tgt = [o for o in list(designs) + list(objs) if o is not None]
                    for o in tgt:
                        str(o)
                        repr(o)
                        for m in (getattr(o, "response", None), getattr(o, "common", None), getattr(o, "group", None)):
                            if m is not None:
                                str(m)
                except Exception as e:  # pylint: disable=broad-except
                    status = type(e).__name__
            elif kind == "describe":
                from fv.project import model_abs

                try:
                    out = repr(model_abs(model_description(FORMULAS[op["f"]])))
                except Exception as e:  # pylint: disable=broad-except
                    status = type(e).__name__
                ref_status, ref = self.server.call(ref_describe, op["f"], key=("d", op["f"]))
            after = self.snapshot(designs, objs)
            changed = cells.diff(before, after)
            self.eid += 1
            self.events.append(
                {
                    "id": self.eid, "hid": hid, "op": kind, "v": str(v), "status": status, "ref_status": ref_status,
                    "out": self._id(out), "ref": self._id(ref), "changed": changed[:20], "mode": str(config["EVAL_UNSEEN_CATEGORIES"]),
                    "desc": {k: op[k] for k in op},
                }
            )

    def close(self):
        self.server.stop()


def _run_batch(args):
    batch = args
    r = Runner()
    try:
        for hid, ops in batch:
            r.run(hid, ops)
    finally:
        r.close()
    return r.events


def random_history(rng, maxlen):
    ops = []
    nd = 0
    for _ in range(rng.randint(4, maxlen)):
        r = rng.random()
        if nd == 0 or r < 0.2:
            if nd < 4:
                ops.append({"op": "build", "f": rng.randint(1, 10), "D": rng.randint(1, 2)})
                nd += 1
                continue
        if r < 0.7:
            ops.append({"op": "eval", "d": rng.randint(1, nd), "p": rng.choice(["common", "group"]), "F": rng.choice([1, 2, 3, 3, 4, 4])})
        elif r < 0.85:
            if rng.random() < 0.15:
                ops.append({"op": "config", "v": rng.choice(["error", "silent"]), "key": rng.choice(["EVAL_UNSEEN", "eval_unseen_categories", "x"])})
            else:
                ops.append({"op": "config", "v": rng.choice(["error", "warning", "silent", "silent", "bogus", "Warning", ""])})
        elif r < 0.91:
            ops.append({"op": "print"})
        elif r < 0.95:
            ops.append({"op": "register"})
        else:
            ops.append({"op": "describe", "f": rng.randint(1, 5)})
    return ops


def judge(rep, events, hists):
    tmp = tlc.scratch_dir("fv_c07_")
    try:
        path = os.path.join(tmp, "trace.ndjson")
        slim = [{k: e[k] for k in ("id", "op", "v", "status", "ref_status", "out", "ref", "changed", "mode")} for e in events]
        common.write_ndjson(path, slim)
        res = tlc.run_tlc("Lifecycle_Trace", env={"FV_TRACE": path}, workers=1, heap="4g", timeout=2400)
        rep.add_tlc("Lifecycle_Trace", res)
        if not any(v[1] == "done" and v[2] == len(events) for v in res.fv):
            raise tlc.TLCFailure("Lifecycle_Trace did not consume the whole trace")
        evmap = {e["id"]: e for e in events}
        for v in res.fv:
            if v[1] == "bad":
                e = evmap[v[2]]
                sig = {"clause": v[3], "op": e["op"], "judge": "Lifecycle_Trace"}
                if e["status"] != "ok":
                    sig["status"] = e["status"]
                rep.violation(sig, {"history": hists[e["hid"]], "failing_call": e.get("desc"), "event": {k: e[k] for k in e if k != "desc"}, "formulas": FORMULAS})
    finally:
        shutil.rmtree(tmp, ignore_errors=True)


def run_histories(rep, hists, label):
    """hists: dict hid -> ops"""
    items = list(hists.items())
    nb = 16
    batches = [items[i::nb] for i in range(nb)]
    batches = [b for b in batches if b]
    results = common.pool_map(_run_batch, batches, procs=min(16, len(batches)), chunksize=1) if len(batches) > 1 else [_run_batch(batches[0])]
    events = []
    for evs in results:
        # make ids unique across batches
        for e in evs:
            e["id"] = len(events) + 1
            events.append(e)
    rep.cov["evaluations"] += sum(1 for e in events if e["op"] != "reset")
    rep.cov["traces_validated_against_impl"] += len(hists)
    rep.count(label + "_histories", len(hists))
    rep.count(label + "_calls", sum(1 for e in events if e["op"] != "reset"))
    judge(rep, events, hists)
    for hid, ops in items:
        if sum(1 for o in ops if o["op"] == "eval") >= 2:
            rep.nontrivial_key(label + repr(ops))
    for hid, ops in items[:2]:
        rep.sample({"kind": label + " history", "ops": ops})


def mc_histories(rep, maxlen):
    tmp = tlc.scratch_dir("fv_c07m_")
    try:
        out = os.path.join(tmp, "h.ndjson")
        cfg = common.write_cfg(
            os.path.join(tmp, "Lifecycle_MC.cfg"),
            constants={"UserTransforms": ["ureg"], "Formulas": "{1, 5, 6, 7}", "TrainFrames": "{1, 2}", "NewFrames": "{3, 4}", "Modes": ["error", "warning", "silent"], "BadValues": ["bogus"], "MaxLen": maxlen, "DoExport": True},
            invariants=["HistoryIndependent", "ConfigValid", "Export"],
            properties=["Frozen", "ConfigDiscipline", "RegistryDiscipline"],
        )
        res = tlc.run_tlc("Lifecycle_MC", cfg=cfg, env={"FV_OUT": out}, workers=16, heap="8g", timeout=2400, allow_violation=True)
        rep.add_tlc(f"Lifecycle_MC maxlen={maxlen}", res)
        if res.violated:
            rep.violation({"clause": "spec_level:" + ",".join(res.violated), "site": "Lifecycle.tla"}, {"tlc_tail": res.out[-3000:]})
            return {}
        hists = {}
        for k, c in enumerate(tlc.read_export(out)):
            hists[k] = c["hist"]
        return hists
    finally:
        shutil.rmtree(tmp, ignore_errors=True)


def main(tier, seed):
    common.use_repo()
    frames()
    rep = Report("C07", tier, seed)
    rep.rule = (
        "S->C: every maximal history of Lifecycle_MC (build / evaluate-common / evaluate-group / set-config over 4 formulas, "
        "2 training frames, 2 new frames incl. unseen levels, 3 modes + an undocumented value) of length 3 (quick) / 4 sampled "
        "(thorough); C->S: random histories of 4..25 calls with up to 4 live designs (same formula twice, shared call text "
        "scale(x), explicit levels from the caller's namespace), prints and model_description calls. After every call all "
        "cells are re-fingerprinted and the outcome compared with a fresh process. Non-trivial = distinct histories with >= 2 evaluations."
    )
    rep.assumptions = [
        "cell fingerprints (fv/cells.py) cover every attribute reachable from a design except evaluation environments and the caller's frame, which are fingerprinted separately",
        "fresh process-state = a child forked from a template process that has imported formulae and never run it",
    ]
    rng = random.Random(seed)
    if tier == "quick":
        hists = mc_histories(rep, 3)
        if len(hists) > 600:
            keys = sorted(hists)
            rng.shuffle(keys)
            hists = {k: hists[k] for k in keys[:600]}
            rep.notes["s2c_sampled"] = True
        run_histories(rep, hists, "S->C")
        run_histories(rep, {i: random_history(rng, 25) for i in range(120)}, "C->S")
    else:
        hists = mc_histories(rep, 4)
        keys = sorted(hists)
        rng.shuffle(keys)
        hists = {k: hists[k] for k in keys[:20000]}
        rep.notes["s2c_sampled"] = True
        run_histories(rep, hists, "S->C")
        run_histories(rep, {i: random_history(rng, 25) for i in range(3000)}, "C->S")
    rep.exhaustive = tier == "quick" and not rep.notes.get("s2c_sampled", False)
    return rep.finish()
