"""C05 Group-specific blocks: group indicators x effect columns, lme4 intercept rules.

Block structure, slot order and label meaning are decided cell by cell by Design.tla (small-scope
replay and the trace judge).  The coding of the effect columns is decided by Contrasts.tla applied
to the effect-side family of each grouping factor: TLC enumerates the families and their required
atoms; on fully crossed data the columns of one grouping factor must be linearly independent and
span indicator(g) (x) (full-indicator coding of the effect family).
"""
import itertools
import random

import numpy as np
import pandas as pd

from fv import common, design, design_mc, design_trace, rank
from fv.drivers import c03
from fv.report import Report


def _check_effect_family(args):
    case, seed, gshape, render, atoms = args
    rng = random.Random((seed * 40503 + hash(repr(case["terms"])) + (5 if case["icpt"] else 0) + hash(gshape) + hash(render) + hash(atoms)) & 0xFFFFFFFF)
    terms = [list(t) for t in case["terms"]]
    eff_factors = sorted({f for t in terms for f in t})
    # grouping expression -> the grouping factors it stands for: (e | g + k) = (e|g) + (e|k), (e | g/k) = (e|g) + (e|g:k)
    gfactors = {"g": [["g"]], "g:k": [["g", "k"]], "C(g)": [["g"]], "g + k": [["g"], ["k"]], "g/k": [["g"], ["g", "k"]]}[gshape]
    gall = sorted({v for gv in gfactors for v in gv})
    factors = sorted(set(eff_factors) | set(gall))
    numeric_parts = {tuple(sorted(f for f in t if f not in c03.CAT)) for t in terms}
    # how the effect factors are written: plain, x as a spline, or the categorical ones wrapped in calls
    wr = {"x": "bs(x, df=3)"} if atoms == "spline" else ({"f": "C(f)", "h": "C(h, Sum)"} if atoms == "calls" else {})
    xw = 3 if atoms == "spline" else 1
    total_w = sum(xw for part in numeric_parts if part)
    df, nlev = c03.make_data(rng, factors, total_w)
    gtxt = gshape
    tt = [":".join(wr.get(f, f) for f in t) for t in terms]
    if render == "joint":
        text = "y ~ (" + ("" if case["icpt"] else "0 + ") + " + ".join(tt) + f" | {gtxt})"
    elif render == "minus_icpt":
        # the group intercept that '|' adds is taken away again: the effect is coded as if it had never been there
        text = "y ~ (" + " + ".join(tt) + f" | {gtxt}) - (1 | {gtxt})"
    elif render == "swapped":
        # an interaction grouping factor spelled in both component orders: one factor
        parts = [f"(0 + {t} | {'k:g' if j % 2 == 0 else 'g:k'})" for j, t in enumerate(tt)] + ([f"(1 | g:k)"] if case["icpt"] else [])
        text = "y ~ " + " + ".join(parts)
    elif render == "margin_icpt":
        # the group intercept of a MARGIN of the grouping factor is in the model, its own is not:
        # the effect under g:k is still coded without reference to an intercept
        text = "y ~ (0 + " + " + ".join(tt) + " | g:k) + (1 | g)"
    elif render == "implicit":
        # the group intercept is left implicit: (e | g) means (1 + e | g)
        text = "y ~ (" + " + ".join(tt) + f" | {gtxt})"
    else:
        # the same family written as separate group terms, in random order (the group intercept need not come first)
        parts = [f"(0 + {t} | {gtxt})" for t in tt] + ([f"(1 | {gtxt})"] if case["icpt"] else [])
        rng.shuffle(parts)
        text = "y ~ " + " + ".join(parts)
    st, dm = design.build(text, df)
    base = {"formula": text, "levels": nlev, "n": len(df), "render": render, "atoms": atoms}
    kf = {"effect_family_exact_under_simple_rule": bool(case.get("simple_rule_exact"))}
    if st != "ok":
        return ({"clause": "exception_on_buildable_effect_family", "exc": type(dm).__name__, **kf}, dict(base, error=str(dm)[:160])), "exc"
    xall = np.asarray(dm.group.design_matrix)
    nlabels = sum(len(t.labels) for t in dm.group.terms.values())
    base.update(ncol=int(xall.shape[1]), nlabels=int(nlabels))
    if nlabels != xall.shape[1]:
        return ({"clause": "labels_and_columns_differ_in_number", **kf}, base), "bad"
    covered = 0
    claimed = set()
    for gvars in gfactors:
        cells = sorted(set(zip(*[df[v] for v in gvars])))
        gidx = [cells.index(tuple(df[v].iloc[r] for v in gvars)) for r in range(len(df))]
        mine = [name for name, tm in dm.group.terms.items() if set(tm.factor.var_names) == set(gvars)]
        claimed.update(mine)
        base = dict(base, grouping_factor=":".join(gvars), terms_of_factor=list(mine))
        # block structure of every term: a row is non-zero only in the slots of its own group, the blocks tile the matrix
        for name in mine:
            z = np.asarray(dm.group[name], dtype=float)
            covered += z.shape[1]
            # the slots of a term follow the order in which ITS factor is written (g:k or k:g)
            order = [str(c.name) for c in dm.group.terms[name].factor.components]
            if sorted(order) == sorted(gvars) and order != list(gvars):
                tcells = sorted(set(zip(*[df[v] for v in order])))
                tidx = [tcells.index(tuple(df[v].iloc[r] for v in order)) for r in range(len(df))]
            else:
                tidx = gidx
            if z.shape[1] % len(cells) != 0:
                return ({"clause": "term_block_is_not_groups_times_effect_columns", **kf}, dict(base, term=name, width=int(z.shape[1]), groups=len(cells))), "bad"
            wd = z.shape[1] // len(cells)
            for r in range(len(df)):
                row = z[r].copy()
                row[tidx[r] * wd : (tidx[r] + 1) * wd] = 0
                if np.any(row != 0):
                    return ({"clause": "row_non_zero_outside_its_group", **kf}, dict(base, term=name, row=r)), "bad"
        x = np.column_stack([np.asarray(dm.group[name]) for name in mine]) if mine else np.zeros((len(df), 0))
        numcols = {v: np.asarray(df[v], dtype=np.int64).reshape(-1, 1) for v in ("x", "z")}
        if atoms == "spline" and any("x" in t for t in terms):
            val = None
            for tm in dm.group.terms.values():
                for c in getattr(tm.expr, "components", []):
                    if str(c.name) == wr["x"]:
                        val = np.asarray(c.value, dtype=float).reshape(len(df), -1)
            if val is None:
                return None, "skip"
            numcols["x"] = val
        gi = np.array([[1 if gidx[r] == c else 0 for c in range(len(cells))] for r in range(len(df))], dtype=np.int64)
        want = len(cells) * c03.dim_of(case["atoms"], nlev, {"x": xw, "z": 1})
        if rank.is_int_matrix(x) and atoms != "spline" and all(rank.is_int_matrix(c) for c in numcols.values()):
            xi = np.round(x).astype(np.int64)
            b_eff = c03.indicator_basis(df, terms, case["icpt"], nlev, numcols)
            b = np.einsum("ij,ik->ijk", gi, b_eff).reshape(len(df), -1)
            rx, rb = rank.rank_int(xi), rank.rank_int(b)
            rxb = rank.rank_int(np.column_stack([xi, b]))
        else:
            b_eff = c03.indicator_basis(df, terms, case["icpt"], nlev, {v: np.asarray(c, dtype=float) for v, c in numcols.items()}).astype(float)
            b = np.einsum("ij,ik->ijk", gi.astype(float), b_eff).reshape(len(df), -1)
            rx, c1 = rank.rank_float(x)
            rb, c2 = rank.rank_float(b)
            rxb, c3 = rank.rank_float(np.column_stack([x, b]))
            if not (c1 and c2 and c3):
                return None, "skip"
        base.update(rank=int(rx), rank_basis=int(rb), rank_joint=int(rxb), dim_abs=int(want))
        if rb != want:
            return ({"clause": "HARNESS_atom_dimension_mismatch"}, base), "harness"
        if rx != x.shape[1]:
            return ({"clause": "group_columns_linearly_dependent", **kf}, base), "bad"
        if rxb != rb or rx != rb:
            return ({"clause": "group_columns_do_not_span_group_by_cell_means", **kf}, base), "bad"
    if render == "margin_icpt":
        covered += np.asarray(dm.group["1|g"]).shape[1] if "1|g" in dm.group.terms else 0
        claimed.add("1|g")
    if covered != xall.shape[1] or claimed != set(dm.group.terms):
        return ({"clause": "term_blocks_do_not_tile_group_matrix", **kf}, dict(base, covered=int(covered))), "bad"
    return None, "ok"


def effect_families(rep, seed, sample, gshapes):
    cases = c03.export_families(rep, "FactorsDef4", 2, 2)
    cases = [c for c in cases if all(f != "g" for t in c["terms"] for f in t)]
    rng = random.Random(seed)
    if sample and len(cases) > sample:
        cases = rng.sample(cases, sample)
        rep.notes["effect_families_sampled"] = True
    jobs = [(c, seed, g, "joint", "plain") for c in cases for g in gshapes]
    jobs += [(c, seed, "g", "split", "plain") for c in cases]
    jobs += [(c, seed, "g", "joint", "spline") for c in cases if any("x" in t for t in c["terms"])]
    jobs += [(c, seed, "g", rd, "calls") for c in cases if any(f in t for t in c["terms"] for f in ("f", "h")) for rd in ("joint", "split")]
    # grouping expressions that distribute over several factors, and effects whose group intercept is implicit
    nog = [c for c in cases if all(f != "k" for t in c["terms"] for f in t)]
    jobs += [(c, seed, g, rd, "plain") for c in nog for g in ("g + k", "g/k") for rd in (["joint", "implicit"] if c["icpt"] else ["joint"])]
    jobs += [(c, seed, "g", "implicit", "plain") for c in cases if c["icpt"]]
    jobs += [(c, seed, "g:k", "margin_icpt", "plain") for c in nog if not c["icpt"]]
    jobs += [(c, seed, "g", "minus_icpt", "plain") for c in cases if not c["icpt"]]
    jobs += [(c, seed, "g:k", "swapped", "plain") for c in nog]
    results = common.pool_map(_check_effect_family, jobs)
    for (c, _, g, rd, at), (prob, kind) in zip(jobs, results):
        rep.cov["evaluations"] += 1
        rep.nontrivial_key("E:" + repr(c["terms"]) + str(c["icpt"]) + g + rd + at)
        if prob is not None:
            sig, case = prob
            if sig["clause"].startswith("HARNESS"):
                raise RuntimeError("atom theory / data generation mismatch: " + repr(case)[:500])
            rep.violation(sig, case)
    rep.count("effect_families", len(cases))
    for c in cases[:2]:
        rep.sample({"kind": "S->C effect-side family", "effect_terms": c["terms"], "effect_intercept": c["icpt"], "required_atoms": c["atoms"]})


def main(tier, seed):
    common.use_repo()
    rep = Report("C05", tier, seed)
    rep.rule = (
        "Block structure: Design_MC small scope (group formulas 8-12) replayed + random builds with group terms judged by Design_Trace "
        "(cells = effect value on the rows of the group, slots in level order, effect fastest). Effect coding: every ordered family of "
        "<= 2 effect terms (<= 2 factors) over {f,h,x} with and without '0 +', for grouping expressions g, g:k and C(g), with the effect factors plain, as a spline and wrapped in calls (C(f), C(h, Sum)), on replicated "
        "fully crossed data with random level counts; exact integer ranks against indicator(g) (x) full effect coding. "
        "Non-trivial = distinct effect families x grouping shapes, and distinct recorded builds with >= 4 columns."
    )
    rep.assumptions = ["families are sets of terms; integer data"]
    if tier == "quick":
        design_mc.run(rep, "C05", seed, n=3, nf=3, ng=2)
        design_trace.run(rep, "C05", 800, seed, {"nmax": 14, "salt": 5})
        effect_families(rep, seed, 150, ["g", "g:k", "C(g)"])
    else:
        design_mc.run(rep, "C05", seed, n=4, nf=3, ng=2)
        design_trace.run(rep, "C05", 20000, seed, {"nmax": 24, "salt": 5})
        effect_families(rep, seed, None, ["g", "g:k", "C(g)"])
    rep.exhaustive = not rep.notes.get("effect_families_sampled", False)
    return rep.finish()
