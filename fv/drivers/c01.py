"""C01 Formula grammar: precedence, associativity, nothing silently ignored.

S->C  TLC enumerates every token string up to a bound over the token alphabet (Grammar_MC),
      proves the spec-level theorems on them and exports, per string, the Abs verdict (in the
      language? which tree?) and the Impl prediction; every case is rendered to text three ways
      and pushed through Scanner -> Parser -> model_description of /repo.
      Lexer_MC does the same one level down: character-class strings -> tokens.
C->S  grammar-generated sentences (deep, random whitespace, redundant parentheses) and
      single-token mutations of them are parsed by /repo; TLC (Grammar_Trace) judges each
      recorded parse: Valid tree, yield = all tokens, nothing left over, = generating tree.
"""
import json
import os
import random
import shutil

from fv import common, syntax, tlc
from fv.report import Report

KINDS_FULL = [
    "IDENTIFIER", "NUMBER", "STRING", "BQNAME", "PYTHON_LITERAL", "LEFT_PAREN", "RIGHT_PAREN",
    "LEFT_BRACKET", "RIGHT_BRACKET", "LEFT_BRACE", "RIGHT_BRACE", "COMMA", "PLUS", "MINUS", "STAR",
    "SLASH", "STAR_STAR", "COLON", "PIPE", "TILDE", "EQUAL", "EQUAL_EQUAL", "LESS", "BANG", "PERIOD",
    "MODULO", "SLASH_SLASH",
]
KINDS_22 = [k for k in KINDS_FULL if k not in ("BQNAME", "PYTHON_LITERAL", "LESS", "MODULO", "SLASH_SLASH")]
KINDS_16 = [
    "IDENTIFIER", "NUMBER", "STRING", "LEFT_PAREN", "RIGHT_PAREN", "LEFT_BRACKET", "RIGHT_BRACKET",
    "COMMA", "PLUS", "MINUS", "STAR", "STAR_STAR", "COLON", "PIPE", "TILDE", "EQUAL",
]
KINDS_10 = ["IDENTIFIER", "NUMBER", "LEFT_PAREN", "RIGHT_PAREN", "COMMA", "MINUS", "STAR", "STAR_STAR", "COLON", "PIPE"]


# ------------------------------------------------------------------ running the real code


METHOD_LEVEL = {"expression": 0, "assignment": 0, "tilde": 1, "random_effect": 2, "comparison": 3, "addition": 4, "multiplication": 5,
                "interaction": 6, "multiple_interaction": 7, "unary": 8, "call": 9, "primary": 10}


def run_text(text, add_intercept, profile=False):
    """Scanner -> Parser on text.  Returns dict(scan_ok, kinds, lexemes, ok, tree, cur, exc)."""
    from formulae.scanner import Scanner
    from formulae.parser import Parser

    out = {"scan_ok": False, "kinds": [], "lex": [], "ok": False, "tree": [], "cur": -1, "exc": ""}
    try:
        toks = Scanner(text).scan(add_intercept)
    except Exception as e:  # pylint: disable=broad-except
        out["exc"] = type(e).__name__
        return out
    out["scan_ok"] = True
    out["kinds"] = [t.kind for t in toks[:-1]]
    out["lex"] = [[t.kind, t.lexeme, repr(t.literal)] for t in toks]
    out["eof_last"] = toks[-1].kind == "EOF"
    calls = []
    stack = []

    def prof(frame, event, arg):
        code = frame.f_code
        if code.co_filename.endswith("parser.py") and code.co_name in METHOD_LEVEL:
            slf = frame.f_locals.get("self")
            if event == "call":
                stack.append((code.co_name, slf.current))
            elif event == "return" and stack:
                name, cin = stack.pop()
                # a frame that is unwinding because of an exception also produces 'return' (with arg None)
                calls.append([METHOD_LEVEL[name], cin, arg is not None, slf.current])

    try:
        p = Parser(toks)
        if profile:
            import sys as _sys

            _sys.setprofile(prof)
            try:
                ast = p.parse()
            finally:
                _sys.setprofile(None)
            out["calls"] = calls
        else:
            ast = p.parse()
    except RecursionError:
        out["exc"] = "RecursionError"
        return out
    except Exception as e:  # pylint: disable=broad-except
        out["exc"] = type(e).__name__
        return out
    out["ok"] = True
    out["tree"] = syntax.project(ast)
    out["cur"] = p.current
    return out


def run_model(text):
    from formulae import model_description
    from fv.project import model_abs

    try:
        m = model_description(text)
    except Exception as e:  # pylint: disable=broad-except
        return False, type(e).__name__
    try:
        return True, model_abs(m)
    except Exception as e:  # pylint: disable=broad-except
        return True, "abs-failed:" + type(e).__name__


def _replay_case(args):
    """One exported Grammar_MC case against the code.  Returns list of (sig, case) problems and
    flags (drift, accepted)."""
    case, seed = args
    rng = random.Random(seed ^ hash(tuple(case["ts"])) & 0xFFFFFFF)
    kinds = case["ts"]
    lexs = syntax.pick_lexemes(kinds, rng)
    problems = []
    drift = 0
    first = None
    for style in (0, 1, 2):
        text = syntax.render(lexs, style, rng)
        r = run_text(text, False)
        base = {"ts": kinds, "text": text, "style": style}
        if not r["scan_ok"]:
            continue  # refused by the scanner (e.g. a second '~'): rejection is always allowed
        if r["kinds"] != kinds:
            problems.append(({"clause": "scanner_tokens_differ_from_text", "site": "Scanner.scan"}, dict(base, got=r["kinds"])))
            continue
        if first is None:
            first = r
        elif r["lex"] != first["lex"]:
            problems.append(({"clause": "whitespace_changed_tokens"}, dict(base, got=r["lex"], first=first["lex"])))
        if r["ok"]:
            if not case["inlang"]:
                clause = "accepted_non_sentence"
                if r["cur"] != len(kinds):
                    clause = "accepted_with_left_over_tokens"
                problems.append(({"clause": clause, "site": "Parser.parse"}, dict(base, tree=r["tree"], cur=r["cur"])))
            elif r["tree"] != case["tree"]:
                problems.append(({"clause": "tree_differs_from_grammar_tree", "site": "Parser.parse"}, dict(base, tree=r["tree"], want=case["tree"])))
            elif r["cur"] != len(kinds):
                problems.append(({"clause": "accepted_with_left_over_tokens", "site": "Parser.parse"}, dict(base, cur=r["cur"])))
        if (r["ok"], r["tree"] if r["ok"] else []) != (case["impl_ok"], case["impl_tree"] if case["impl_ok"] else []):
            drift += 1
        if style == 1:
            # history independence of the verdict: the same characters without the blanks are another
            # token string; interpreting it first must not influence how this one is interpreted
            run_model("".join(text.split()))
            md_ok, md = run_model(text)
            if md_ok and not case["wi_inlang"]:
                problems.append(({"clause": "model_description_accepted_non_sentence", "site": "model_description"}, dict(base, model=md)))
    return problems, drift, bool(first and first["ok"])


# ------------------------------------------------------------------ the check


def mc_and_replay(rep, kinds, maxlen, seed, workers=16, heap="12g", timeout=3000, eof_check=True):
    tmp = tlc.scratch_dir("fv_c01_")
    try:
        out = os.path.join(tmp, "cases.ndjson")
        cfg = common.write_cfg(
            os.path.join(tmp, "Grammar_MC.cfg"),
            constants={"EofCheck": eof_check, "MaxLen": maxlen, "DoExport": True, "Kinds": kinds},
            invariants=["Unambiguous", "AbsConsistent", "ParenNeutral", "ImplSound", "ImplComplete", "Export"],
        )
        res = tlc.run_tlc("Grammar_MC", cfg=cfg, env={"FV_OUT": out}, workers=workers, heap=heap, timeout=timeout, allow_violation=True)
        rep.add_tlc(f"Grammar_MC kinds={len(kinds)} maxlen={maxlen}", res)
        if res.violated:
            # a spec-level theorem failed: the Impl layer (a transcription of parser.py) leaves Abs
            rep.violation(
                {"clause": "spec_level:" + ",".join(res.violated), "site": "Grammar.tla Impl layer"},
                {"tlc_tail": res.out[-3000:]},
            )
            return
        cases = tlc.read_export(out)
        expect = sum(len(kinds) ** n for n in range(1, maxlen + 1))
        if len(cases) != expect:
            raise tlc.TLCFailure(f"export has {len(cases)} cases, expected {expect}")
        results = common.pool_map(_replay_case, [(c, seed) for c in cases])
        n_acc = 0
        for c, (problems, drift, acc) in zip(cases, results):
            rep.cov["evaluations"] += 3
            rep.cov["impl_drift"] += drift
            n_acc += acc
            if c["inlang"]:
                rep.nontrivial_key("S:" + " ".join(c["ts"]))
            for sig, case in problems:
                rep.violation(sig, case)
        rep.count("s2c_cases", len(cases))
        rep.count("s2c_sentences", sum(1 for c in cases if c["inlang"]))
        rep.count("s2c_accepted_by_code", n_acc)
        for c in cases[:: max(1, len(cases) // 3)][:3]:
            rep.sample({"kind": "S->C case", "ts": c["ts"], "inlang": c["inlang"], "tree": c["tree"]})
    finally:
        shutil.rmtree(tmp, ignore_errors=True)


def _mutate(kinds, rng):
    kinds = list(kinds)
    r = rng.random()
    junk = ["RIGHT_PAREN", "LEFT_PAREN", "IDENTIFIER", "NUMBER", "COMMA", "PERIOD", "BANG", "RIGHT_BRACKET", "RIGHT_BRACE", "EQUAL", "PIPE", "MODULO", "SLASH_SLASH", "STRING", "LEFT_BRACE", "EQUAL_EQUAL"]
    pos = rng.randint(0, len(kinds))
    if r < 0.3 and kinds:
        del kinds[min(pos, len(kinds) - 1)]
    elif r < 0.5 and kinds:
        p = min(pos, len(kinds) - 1)
        kinds.insert(p, kinds[p])
    elif r < 0.75:
        kinds.insert(pos, rng.choice(junk))
    else:
        kinds.append(rng.choice(junk))
    return kinds


def _trace_event(args):
    """Generate one sentence (or mutation), run the code on it, return the trace event plus
    python-level problems (whitespace / parenthesis invariance at token and model level)."""
    idx, seed, depth = args
    rng = random.Random((seed * 1000003 + idx) & 0xFFFFFFFF)
    tree = syntax.gen_formula_tree(rng, rng.randint(1, depth))
    kinds0, tree0 = syntax.tokens_of(tree, 0.0, rng, brace=True)
    problems = []
    mutated = rng.random() < 0.35
    if mutated:
        kinds = _mutate(kinds0, rng)
        want = []
    else:
        kinds, want = syntax.tokens_of(tree, 0.25, rng, brace=True)
    lexs = syntax.pick_lexemes(kinds, rng)
    text = syntax.render(lexs, 2, rng)
    r = run_text(text, True, profile=(idx % 5 == 0))
    md_ok, md = run_model(text)
    ev = None
    base = {"text": text, "kinds": kinds}
    if r["scan_ok"]:
        # the scanner inserts '1 +'; everything else must be the kinds we rendered
        got = list(r["kinds"])
        exp = list(kinds)
        if exp.count("TILDE") == 1:
            k = exp.index("TILDE")
            exp = exp[: k + 1] + ["NUMBER", "PLUS"] + exp[k + 1 :]
        elif exp.count("TILDE") == 0:
            exp = ["NUMBER", "PLUS"] + exp
        if got != exp:
            problems.append(({"clause": "scanner_tokens_differ_from_text"}, dict(base, got=got)))
        else:
            if want:
                # the generating tree of the token string including the implicit intercept
                want_i = _graft_at_tilde(want)
                if want_i is None:
                    want_i = _graft_intercept(want)
            else:
                want_i = []
            ev = {"id": idx, "toks": got, "ok": r["ok"], "tree": r["tree"] if r["ok"] else [], "cur": r["cur"], "md_ok": bool(md_ok), "want": want_i, "calls": r.get("calls", [])[:400]}
    # whitespace / parenthesis invariance at the model level (only for unmutated sentences)
    if not mutated and r["scan_ok"]:
        t2 = syntax.render(lexs, 1, rng)
        r2 = run_text(t2, True)
        if r2["scan_ok"] and r2["lex"] != r["lex"]:
            problems.append(({"clause": "whitespace_changed_tokens"}, dict(base, other=t2)))
        md2_ok, md2 = run_model(t2)
        if md_ok and md2_ok and md != md2:
            problems.append(({"clause": "whitespace_changed_model"}, dict(base, other=t2, a=md, b=md2)))
        # same lexemes for the atoms, without the redundant parentheses
        plain_lex = _relex(kinds, lexs, kinds0)
        if plain_lex is not None:
            t3 = syntax.render(plain_lex, 1, rng)
            md3_ok, md3 = run_model(t3)
            # parser level, without the implicit intercept (its position depends on the parentheses)
            r3 = run_text(t3, False)
            r1 = run_text(text, False)
            if r1["ok"] and r3["ok"] and r1["cur"] == len(r1["kinds"]) and r3["cur"] == len(r3["kinds"]) and syntax.strip_groups(r1["tree"]) != syntax.strip_groups(r3["tree"]):
                problems.append(({"clause": "redundant_parentheses_changed_tree"}, dict(base, other=t3)))
            if md_ok and md3_ok and md != md3:
                flag = _literal_in_redundant_group(want, list(lexs)) if want else False
                problems.append(({"clause": "redundant_parentheses_changed_model", "intercept_literal_in_group": bool(flag)}, dict(base, other=t3, a=md, b=md3)))
    return ev, problems, mutated, text


def _literal_in_redundant_group(tree, lexs_no_paren):
    """Does a redundant grouping enclose an additive chain that contains an intercept literal
    (0 / 1)?  The scanner's implicit '1 +' stays outside such a group (KF_C01_paren_intercept)."""
    it = iter(lexs_no_paren)
    found = [False]

    def chain_has_literal(t):
        # t is annotated: atoms carry their lexeme
        if t[0] == "bin" and t[1] in ("PLUS", "MINUS"):
            return chain_has_literal(t[2]) or chain_has_literal(t[3])
        if t[0] == "un":
            return chain_has_literal(t[2])
        return t[0] == "atom" and t[1] == "NUMBER" and t[2] in ("0", "1")

    def ann(t):
        tag = t[0]
        if tag == "atom":
            return ["atom", t[1], next(it)]
        if tag == "sub":
            next(it)
            next(it)
            inner = ann(t[1])
            next(it)
            return ["sub", inner]
        if tag == "grp":
            next(it)
            inner = ann(t[1])
            next(it)
            if chain_has_literal(inner):
                found[0] = True
            return ["grp", inner]
        if tag == "un":
            next(it)
            return ["un", t[1], ann(t[2])]
        if tag == "bin":
            l = ann(t[2])
            next(it)
            return ["bin", t[1], l, ann(t[3])]
        if tag == "assign":
            next(it)
            next(it)
            return ["assign", t[1], ann(t[2])]
        if tag == "call":
            if t[3]:
                next(it)
                a = ann(t[2][0])
                next(it)
                return ["call", t[1], [a], True]
            c = ann(t[1])
            next(it)
            args = []
            for k, a in enumerate(t[2]):
                if k:
                    next(it)
                args.append(ann(a))
            next(it)
            return ["call", c, args, False]
        return t

    try:
        ann(tree)
    except StopIteration:
        return False
    return found[0]


def _graft_intercept(t):
    """Tree of '1 + <t>' as a left-associative addition chain."""
    if t[0] == "bin" and t[1] in ("PLUS", "MINUS"):
        return ["bin", t[1], _graft_intercept(t[2]), t[3]]
    return ["bin", "PLUS", ["atom", "NUMBER"], t]


def _graft_at_tilde(t):
    """The generating tree with the scanner's '1 +' inserted right of the '~' (None: no '~')."""
    if t[0] == "bin" and t[1] == "TILDE":
        return ["bin", "TILDE", t[2], _graft_intercept(t[3])]
    if t[0] == "grp":
        inner = _graft_at_tilde(t[1])
        return None if inner is None else ["grp", inner]
    return None


def _relex(kinds, lexs, kinds0):
    """Lexemes for kinds0 (= kinds without the redundant parentheses) reusing the atoms' lexemes
    in order.  None if the non-parenthesis kinds do not line up."""
    a = [(k, l) for k, l in zip(kinds, lexs) if k not in ("LEFT_PAREN", "RIGHT_PAREN")]
    out = []
    j = 0
    for k in kinds0:
        if k in ("LEFT_PAREN", "RIGHT_PAREN"):
            out.append(syntax.LEXEMES[k][0])
        else:
            if j >= len(a) or a[j][0] != k:
                return None
            out.append(a[j][1])
            j += 1
    return out if j == len(a) else None


def traces(rep, n, depth, seed):
    results = common.pool_map(_trace_event, [(i, seed, depth) for i in range(n)])
    events = []
    by_id = {}
    for ev, problems, mutated, text in results:
        rep.cov["evaluations"] += 1
        for sig, case in problems:
            rep.violation(sig, case)
        if ev is not None:
            events.append(ev)
            by_id[ev["id"]] = text
            if ev["ok"] and len(ev["toks"]) > 6:
                rep.nontrivial_key("T:" + " ".join(ev["toks"]))
    tmp = tlc.scratch_dir("fv_c01t_")
    try:
        path = os.path.join(tmp, "trace.ndjson")
        common.write_ndjson(path, events)
        res = tlc.run_tlc("Grammar_Trace", env={"FV_TRACE": path}, workers=1, heap="4g", timeout=3000)
        rep.add_tlc("Grammar_Trace", res)
        done = [v for v in res.fv if v[1] == "done"]
        if not done or done[-1][2] != len(events):
            raise tlc.TLCFailure("Grammar_Trace did not consume the whole trace")
        rep.cov["traces_validated_against_impl"] += len(events)
        rep.count("c2s_accepted", sum(1 for e in events if e["ok"]))
        rep.count("c2s_rejected", sum(1 for e in events if not e["ok"]))
        rep.count("c2s_max_tokens", 0)
        rep.cov["c2s_max_tokens"] = max([len(e["toks"]) for e in events] + [0])
        evmap = {e["id"]: e for e in events}
        for v in res.fv:
            if v[1] == "bad":
                e = evmap[v[2]]
                rep.violation({"clause": v[3], "site": "Parser.parse", "judge": "Grammar_Trace"}, {"text": by_id[v[2]], "event": {k: e[k] for k in e if k != "calls"}})
            elif v[1] == "drift":
                rep.cov["impl_drift"] += 1
        rep.count("parser_method_calls_checked_against_spec", sum(len(e.get("calls", [])) for e in events))
        for e in events[:2]:
            rep.sample({"kind": "C->S event", "text": by_id[e["id"]], "event": e})
    finally:
        shutil.rmtree(tmp, ignore_errors=True)


def literal_history(rep):
    """A formula is interpreted as it is written, whatever was parsed before it: the numbers 2 and 2.0 (equal,
    but different literals) parsed one after the other, in both orders, keep their own type and lexeme."""
    from formulae.expr import Literal
    from formulae.parser import Parser
    from formulae.scanner import Scanner

    def literals(text):
        found = []

        def walk(node):
            if isinstance(node, Literal):
                found.append((type(node.value).__name__, node.value))
            for v in vars(node).values() if hasattr(node, "__dict__") else []:
                if isinstance(v, (list, tuple)):
                    for it in v:
                        if hasattr(it, "__dict__"):
                            walk(it)
                elif isinstance(v, dict):
                    for it in v.values():
                        if hasattr(it, "__dict__"):
                            walk(it)
                elif hasattr(v, "__dict__") and type(v).__module__.startswith("formulae"):
                    walk(v)

        walk(Parser(Scanner(text).scan()).parse())
        return found

    for first, second, want in (("y ~ f(x, 2)", "y ~ f(x, 2.0)", ("float", 2.0)), ("y ~ f(x, 7.0)", "y ~ f(x, 7)", ("int", 7)), ("y ~ {x ** 10}", "y ~ {x ** 10.0}", ("float", 10.0)),
                                ("y ~ f(x, k=3.0)", "y ~ f(x, k=3)", ("int", 3)), ("y ~ f(x, 0)", "y ~ f(x, 0.0)", ("float", 0.0)), ("y ~ x", "y ~ f(x, 1.0)", ("float", 1.0))):
        rep.cov["evaluations"] += 1
        try:
            literals(first)
            got = literals(second)
        except Exception as e:  # pylint: disable=broad-except
            rep.violation({"clause": "literal_history_parse_failed", "site": "Parser"}, {"first": first, "second": second, "error": str(e)[:100]})
            continue
        if want not in got or (want[0] == "float" and ("int", int(want[1])) in [g for g in got if g != ("int", 1)]):
            rep.violation({"clause": "literal_depends_on_what_was_parsed_before", "site": "Parser.primary"}, {"first": first, "second": second, "literals_of_second": got})


def main(tier, seed):
    common.use_repo()
    rep = Report("C01", tier, seed)
    literal_history(rep)
    rep.rule = (
        "S->C: every token string over the listed kinds up to the length bound (exhaustive), each rendered "
        "3 ways; non-trivial = distinct strings that are sentences of the grammar. C->S: generated sentences "
        "and single-token mutations judged by Grammar_Trace; non-trivial = distinct accepted token strings "
        "longer than 6 tokens. Lexer: every character-class string up to the bound."
    )
    rep.assumptions = [
        "Abs grammar is the most permissive stratified grammar compatible with the statement; acceptance of a sentence is not demanded",
        "lexemes are drawn from a fixed ASCII pool; non-ASCII identifiers are not covered",
    ]
    from fv.drivers import c01_lexer

    if tier == "quick":
        mc_and_replay(rep, KINDS_22, 4, seed)
        traces(rep, 4000, 6, seed)
        c01_lexer.run(rep, 4, seed)
        c01_lexer.traces(rep, 1500, seed)
    else:
        mc_and_replay(rep, KINDS_FULL, 4, seed)
        mc_and_replay(rep, KINDS_16, 5, seed)
        mc_and_replay(rep, KINDS_10, 6, seed)
        traces(rep, 120000, 9, seed)
        c01_lexer.run(rep, 5, seed)
        c01_lexer.traces(rep, 40000, seed)
    rep.exhaustive = True
    return rep.finish()
