"""C10 Unseen levels and new groups at prediction follow the configured policy."""
import copy
import random
import warnings

import numpy as np
import pandas as pd

from fv import common, design, design_mc, design_trace, gen, tlc
from fv.report import Report

UNSEEN_CODE = 99


def make_new_world(rng, w, unseen_prob):
    """Rows of the training world with unseen levels sprinkled over the categorical variables.
    Returns (DataFrame, abstract frame coded with the TRAINING tables, variables with unseen cells)."""
    n2 = rng.randint(1, max(1, w.n))
    sel = [rng.randrange(w.n) for _ in range(n2)]
    new = w.df.iloc[sel].reset_index(drop=True).copy()
    cols = {}
    for name, c in w.cols.items():
        cols[name] = {"kind": c["kind"], "v": [c["v"][i] for i in sel], "decl": list(c["decl"])}
    touched = set()
    # when nothing is unseen the training tables already give the right codes
    cands = [v for v in ("f", "g", "h", "o", "k") if rng.random() < unseen_prob]
    for v in cands:
        rows = [r for r in range(n2) if rng.random() < 0.4] or [rng.randrange(n2)]
        if v == "k":
            s = new["k"].copy()
            newk = rng.choice([777, 0])   # 0: an unseen level that is false in Python
            for r in rows:
                s.iloc[r] = newk
                cols["k"]["v"][r] = newk
                cols["C(k)"]["v"][r] = UNSEEN_CODE
                cols["k#grp"]["v"][r] = UNSEEN_CODE
                cols["C(k, levels=KL)"]["v"][r] = UNSEEN_CODE
            new["k"] = s
            touched.add("C(k)")
            touched.add("k#grp")
            touched.add("C(k, levels=KL)")
        elif v == "o":
            # an ordered categorical: a value outside the declared categories
            s = new["o"].astype(object)
            for r in rows:
                s.iloc[r] = "NEW_o"
                cols["o"]["v"][r] = UNSEEN_CODE
            new["o"] = s
            touched.add("o")
        else:
            s = new[v].astype(object)
            blank = rng.random() < 0.3   # the empty string as the (only) unseen level of this variable
            for r in rows:
                s.iloc[r] = "" if blank else "NEW_" + v + str(rng.randint(1, 2))
                cols[v]["v"][r] = UNSEEN_CODE
                if v == "h":
                    cols["I(h)"]["v"][r] = UNSEEN_CODE
                    cols["S(h)"]["v"][r] = UNSEEN_CODE
                if v == "g":
                    cols["C(g, Sum)"]["v"][r] = UNSEEN_CODE
            new[v] = s
            touched.add(v)
    # an unordered categorical that declares a category no row uses (left over after a filter): not an unseen level
    for v in ("f", "g", "h"):
        if rng.random() < 0.2 and not isinstance(w.df[v].dtype, pd.CategoricalDtype):
            vals = list(new[v])
            new[v] = pd.Categorical(vals, categories=sorted(set(vals)) + ["zz_declared_but_unused"])
    # row labels are not row positions (a frame that was sorted, sampled or filtered)
    r = rng.random()
    if r < 0.3:
        lab = list(range(n2))
        rng.shuffle(lab)
        new.index = lab
    elif r < 0.5:
        new.index = [10 * n2 + 3 * i for i in range(n2)]
    elif r < 0.6:
        new.index = [rng.choice(["a", "b"]) for _ in range(n2)]
    return new, {"n": n2, "cols": cols}, touched


GRP_ALIAS = {"k": "k#grp"}   # a numeric variable used as grouping factor: the abstract column of its groups


def _events(args):
    idx, seed = args
    from formulae import config

    rng = random.Random((seed * 32452843 + idx) & 0xFFFFFFFF)
    w = gen.gen_world(rng, nmin=4, nmax=16)
    text, used, struct = gen.gen_formula(rng, groups=True, max_terms=3, resp="y", cat_comps=["f", "g", "h", "o", "C(k)", "C(k, levels=KL)", "I(h)", "S(h)", "C(g, Sum)"], num_comps=["x", "z", "I(x * 2)"])
    st, dm = design.build(text, w.df, extra_namespace=dict(w.namespace))
    if st != "ok":
        return [], text
    train = {"n": w.n, "cols": copy.deepcopy(w.cols)}
    out = []
    old = config["EVAL_UNSEEN_CATEGORIES"]
    try:
        for step in range(rng.randint(1, 3)):  # sequences of mode changes between evaluations
            mode = rng.choice(["error", "warning", "silent", "silent"])
            config["EVAL_UNSEEN_CATEGORIES"] = mode
            if step > 0 and rng.random() < 0.4:
                pass   # the very same frame object again, under the mode now in force
            else:
                new, newabs, touched = make_new_world(rng, w, rng.choice([0.0, 0.3, 0.6]))
            for part in ("common", "group"):
                mat = getattr(dm, part)
                if mat is None:
                    continue
                ev = {"id": idx * 10 + step * 2 + (0 if part == "common" else 1), "kind": "unseen", "train": train, "new": newabs, "part": part, "mode": mode,
                      "status": "ok", "warned": False, "labels": [], "tslices": [], "data": [], "slices": [], "tfac": [], "factors_new": []}
                labs = []
                for term in mat.terms.values():
                    labs.extend(term.labels)
                try:
                    if part == "common":
                        ev["labels"] = [gen.parse_label(l, w) for l in labs]
                    else:
                        ev["labels"] = [gen.parse_group_label(l, w) for l in labs]
                        ev["tfac"] = [[GRP_ALIAS.get(str(c.name), str(c.name)) for c in t.factor.components] for t in mat.terms.values()]
                    ev["tslices"] = [[s.start, s.stop] for s in mat.slices.values()]
                except Exception as e:  # pylint: disable=broad-except
                    continue
                with warnings.catch_warnings(record=True) as wl:
                    warnings.simplefilter("always")
                    try:
                        res = mat.evaluate_new_data(new)
                        ev["data"] = design.to_int_matrix(res.design_matrix)
                        ev["slices"] = [[s.start, s.stop] for s in res.slices.values()]
                        if part == "group":
                            ev["factors_new"] = [[GRP_ALIAS.get(p, p) for p in f.split(":")] for f in res.factors_with_new_levels]
                    except Exception as e:  # pylint: disable=broad-except
                        ev["status"] = type(e).__name__
                        ev["error"] = str(e)[:160]
                ev["warned"] = any("not present in the original data set" in str(x.message) for x in wl)
                out.append(ev)
    finally:
        config["EVAL_UNSEEN_CATEGORIES"] = old
    return out, text


def traces(rep, n, seed):
    results = common.pool_map(_events, [(i, seed) for i in range(n)])
    events, texts = [], {}
    for lst, text in results:
        rep.cov["evaluations"] += max(1, len(lst))
        for ev in lst:
            events.append(ev)
            texts[ev["id"]] = text
            if any(UNSEEN_CODE in c["v"] for c in ev["new"]["cols"].values()):
                rep.nontrivial_key("U:" + text + ev["mode"] + ev["part"] + str([c["v"] for c in ev["new"]["cols"].values()]))
    design_trace.CLAUSE_PROPS.update({
        "unseen_level_not_refused_in_error_mode": ["C10"], "exception_on_new_data": ["C10"], "no_warning_in_warning_mode": ["C10"],
        "warning_although_silent_or_nothing_unseen": ["C10"], "cells_differ_from_unseen_level_rule": ["C10"],
        "group_block_rule_violated": ["C10"], "factors_with_new_levels_differ": ["C10"],
        "slices_do_not_partition_columns": ["C10", "C17"], "rows_not_one_per_observation": ["C10", "C17"],
    })
    slim = [{k: v for k, v in e.items() if k != "error"} for e in events]
    emap = {e["id"]: e for e in events}
    design_trace.judge(rep, "C10", slim, lambda e: {"formula": texts[e["id"]], "mode": e["mode"], "part": e["part"], "status": e["status"], "error": emap[e["id"]].get("error"),
                                                    "new": {k: c["v"] for k, c in e["new"]["cols"].items()}, "train": {k: c["v"] for k, c in e["train"]["cols"].items()},
                                                    "data": e["data"], "labels": e["labels"], "slices": e["slices"], "tslices": e["tslices"], "factors_new": e["factors_new"]})
    for e in [x for x in events if any(UNSEEN_CODE in c["v"] for c in x["new"]["cols"].values())][:2]:
        rep.sample({"kind": "C->S unseen event", "formula": texts[e["id"]], "mode": e["mode"], "part": e["part"], "status": e["status"], "new_f": e["new"]["cols"]["f"]["v"], "new_g": e["new"]["cols"]["g"]["v"]})


def _fresh_default():
    import warnings

    import pandas as pd

    from formulae import config, design_matrices

    mode = config["EVAL_UNSEEN_CATEGORIES"]
    dm = design_matrices("y ~ g", pd.DataFrame({"y": [1.0, 2.0, 3.0], "g": ["a", "b", "a"]}))
    try:
        with warnings.catch_warnings():
            warnings.simplefilter("error")
            dm.common.evaluate_new_data(pd.DataFrame({"g": ["a", "zz"]}))
        return mode, "returned"
    except ValueError:
        return mode, "ValueError"
    except Exception as e:  # pylint: disable=broad-except
        return mode, type(e).__name__


def config_rules(rep):
    """The configuration accepts only its documented keys and values (judged by Lifecycle_Trace)."""
    from formulae import config
    from fv import fresh
    from fv.drivers import c07

    # nobody has configured anything yet: the mode in force is 'error' (a fresh interpreter)
    srv = fresh.FreshServer()
    try:
        mode, outcome = srv.call(_fresh_default)
    finally:
        srv.stop()
    rep.cov["evaluations"] += 1
    if mode != "error" or outcome != "ValueError":
        rep.violation({"clause": "default_mode_is_not_error", "site": "formulae.config"}, {"mode_of_a_fresh_process": mode, "unseen_level_evaluation": outcome})

    events = [{"id": 1, "hid": 0, "op": "reset", "v": "", "status": "ok", "ref_status": "ok", "out": 0, "ref": 0, "changed": [], "mode": "error"}]
    config["EVAL_UNSEEN_CATEGORIES"] = "error"
    trials = [("EVAL_UNSEEN_CATEGORIES", v) for v in ("warning", "silent", "bogus", "Silent", "", None, 0, "error", "ERROR", "warn")]
    trials += [(k, "silent") for k in ("eval_unseen_categories", "EVAL_UNSEEN", "X", "")]
    for how in ("item", "attr"):
        for key, v in trials:
            before = config["EVAL_UNSEEN_CATEGORIES"]
            status = "ok"
            try:
                if how == "item":
                    config[key] = v
                else:
                    setattr(config, key, v)
            except Exception as e:  # pylint: disable=broad-except
                status = type(e).__name__
            after = config["EVAL_UNSEEN_CATEGORIES"]
            documented = key == "EVAL_UNSEEN_CATEGORIES" and v in ("error", "warning", "silent")
            events.append({"id": len(events) + 1, "hid": 0, "op": "config", "v": str(v) if documented else "undocumented:" + repr((key, v)), "status": status, "ref_status": "ok",
                           "out": 0, "ref": 0, "changed": ["config"] if after != before else [], "mode": str(after), "desc": {"key": key, "value": repr(v), "how": how}})
            rep.cov["evaluations"] += 1
    config["EVAL_UNSEEN_CATEGORIES"] = "error"
    c07.judge(rep, events, {0: "config assignments"})


def main(tier, seed):
    common.use_repo()
    rep = Report("C10", tier, seed)
    rep.rule = (
        "S->C: Design_MC: rows of every small-scope training frame with the cells of f, g or both replaced by a level that never "
        "occurred, under the three modes (UnseenTheorem + replay incl. warnings, slices, factors_with_new_levels); C->S: random "
        "worlds x formulas, up to 3 evaluations per design with mode changes in between, unseen levels placed in predictors, "
        "effect and grouping variables (str, ordered, C(k)), judged by Design_Trace (zero rule, trailing block per term, exact "
        "factor list); configuration keys/values judged by Lifecycle_Trace. Non-trivial = distinct events that contain an unseen level."
    )
    rep.assumptions = ["in 'error' mode an unseen level anywhere in the evaluated matrix (predictor, effect or grouping variable) must raise ValueError"]
    if tier == "quick":
        design_mc.run(rep, "C10", seed, n=3, nf=3, ng=2, maxsel=1, unseen=True, sample=15000)
        traces(rep, 700, seed)
    else:
        design_mc.run(rep, "C10", seed, n=3, nf=3, ng=2, maxsel=2, unseen=True, sample=150000)
        traces(rep, 15000, seed)
    config_rules(rep)
    rep.exhaustive = not rep.notes.get("s2c_replay_sampled", False)
    return rep.finish()
