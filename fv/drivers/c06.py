"""C06 Evaluating new data reproduces the training encoding."""
import random
import warnings

import numpy as np
import pandas as pd

from fv import common, design, design_mc, design_trace, gen, rows
from fv.report import Report


def _event(args):
    idx, seed = args
    rng = random.Random((seed * 15485863 + idx) & 0xFFFFFFFF)
    w = gen.gen_world(rng, nmin=6, nmax=24, distinct=5)
    text = rows.gen_text_formula(rng, groups=True, rich=True)
    ns = rows.namespace(w, rng)
    st, dm = design.build(text, w.df, extra_namespace=ns)
    info = {"formula": text, "n": w.n}
    if st != "ok":
        return [], info
    n = w.n
    mode = rng.choice(["subset", "perm", "repeat", "single", "single", "missing-level"])
    if mode == "subset":
        sel = sorted(rng.sample(range(n), rng.randint(1, n)))
    elif mode == "perm":
        sel = list(range(n))
        rng.shuffle(sel)
    elif mode == "repeat":
        sel = [rng.randrange(n) for _ in range(rng.randint(1, n + 3))]
    elif mode == "single":
        sel = [rng.randrange(n)]
    else:
        # all rows of one level of a factor only
        col = rng.choice(["f", "g", "h", "o", "k"])
        val = w.df[col].iloc[rng.randrange(n)]
        sel = [i for i in range(n) if w.df[col].iloc[i] == val]
    info.update(sel=sel, mode=mode)
    new = w.df.iloc[sel].copy()
    if rng.random() < 0.5:
        new = new.reset_index(drop=True)
    if rng.random() < 0.3:
        # the same frame OBJECT evaluated before with other rows in it, then refilled in place:
        # the result depends on what the frame holds now
        sel0 = [rng.randrange(n) for _ in sel]
        new = w.df.iloc[sel0].copy().reset_index(drop=True)
        with warnings.catch_warnings():
            warnings.simplefilter("ignore")
            for part in ("common", "group"):
                if getattr(dm, part) is not None:
                    try:
                        getattr(dm, part).evaluate_new_data(new)
                    except Exception:  # pylint: disable=broad-except
                        pass
        for col in list(new.columns):
            new[col] = w.df[col].iloc[sel].values
        info["refilled_in_place_after"] = sel0
    # the dtype of a factor in the new frame has its own history: an ordered categorical built from the selected rows
    # (its own category order), or the training categorical with its unused categories removed
    for col in ("f", "g", "h"):
        if rng.random() < 0.15:
            vals = [str(v) for v in new[col]]
            cats = sorted(set(vals))
            rng.shuffle(cats)
            new[col] = pd.Categorical(vals, categories=cats, ordered=True)
    for col in ("o", "ou"):
        if rng.random() < 0.3 and isinstance(new[col].dtype, pd.CategoricalDtype):
            new[col] = new[col].cat.remove_unused_categories()
    out = []
    for j, part in enumerate(("common", "group")):
        m = getattr(dm, part)
        if m is None:
            continue
        ev = {"id": idx * 2 + j, "kind": "rows", "status": "ok", "a": [], "b": [], "map": [], "la": [], "lb": [], "tag": part}
        try:
            with warnings.catch_warnings():
                warnings.simplefilter("ignore")
                res = m.evaluate_new_data(new)
            a = np.asarray(m.design_matrix, dtype=float)
            b = np.asarray(res.design_matrix, dtype=float)
            ia, ib = rows.intern([a, b])
            ev.update(a=ia, b=ib, map=[s + 1 for s in sel])
            la = [str(k) + str(v) for k, v in m.slices.items()]
            lb = [str(k) + str(v) for k, v in res.slices.items()]
            ev["la"], ev["lb"] = rows.label_ids(la, lb)
        except Exception as e:  # pylint: disable=broad-except
            ev["status"] = type(e).__name__
            info["error"] = str(e)[:200]
        out.append(ev)
    return out, info


def traces(rep, n, seed):
    results = common.pool_map(_event, [(i, seed) for i in range(n)])
    events, infos = [], {}
    for lst, info in results:
        rep.cov["evaluations"] += 1
        if not lst:
            rep.count("formulas_not_buildable")
        for ev in lst:
            events.append(ev)
            infos[ev["id"]] = info
        if lst:
            rep.nontrivial_key("N:" + info["formula"] + str(info.get("sel")))
    design_trace.judge(rep, "C06", events, lambda e: dict(infos[e["id"]], part=e["tag"], status=e["status"]))
    for e in events[:2]:
        rep.sample({"kind": "C->S rows event (new data = rows of training data)", **infos[e["id"]]})


def main(tier, seed):
    common.use_repo()
    rep = Report("C06", tier, seed)
    rep.rule = (
        "S->C: Design_MC: every row sequence of length <= 2 (quick) / <= 3 (thorough) of every small-scope training frame "
        "(SubsetReproduces theorem + replay through evaluate_new_data); C->S: random worlds x formulas with nested and "
        "interacting stateful transforms (center, scale, standardize, bs, poly), C/T/S codings incl. levels=, ordered "
        "categoricals and group terms; new frame = subset / permutation / repetition / single row / all rows of one level, also as a frame object that was evaluated before and refilled in place; "
        "TLC judges result[i] = training[sel[i]] on value ids and equal slices. Non-trivial = distinct (formula, selection) pairs."
    )
    rep.assumptions = ["equality of cell values up to 1e-9 relative"]
    from fv import callkinds

    callkinds.run(rep, "C06")   # CallKinds.tla: new data take the path of the kind decided at training time
    if tier == "quick":
        design_mc.run(rep, "C06", seed, n=3, nf=3, ng=2, maxsel=2)
        traces(rep, 1500, seed)
    else:
        design_mc.run(rep, "C06", seed, n=3, nf=3, ng=2, maxsel=3)
        traces(rep, 30000, seed)
    rep.exhaustive = True
    return rep.finish()
