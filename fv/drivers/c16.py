"""C16 Built-in helper functions and aliases keep their documented pointwise meaning.

Helpers.tla models binary / offset / prop as objects with a training and a prediction step; TLC
checks the statement's pointwise meaning and the frozen success level on every small case and
exports each terminal state for replay (S->C).  For the recorded events (C->S) the judge is
Design_Trace: a helper's column is given the label the statement assigns to it
(binary(x, s) = indicator of x = s; offset(v) = v; prop = successes, trials; I(e) = e) and TLC
checks every cell at training time (build events) and on new frames (prediction-time events:
offset recomputed from the new frame, trials of the new frame, success level frozen); aliases
are judged as row relations between two builds; invalid arguments must be refused.
"""
import copy
import os
import random
import shutil
import warnings

import numpy as np
import pandas as pd

from fv import common, design, design_trace, gen, rows, tlc
from fv.report import Report


# the caller happens to have ordinary objects named like the helpers: the built-in helpers still win (C11), so
# every alias keeps its meaning
SHADOW = {"p": 0.5, "I": np.eye(2), "B": 200, "T": 1.5, "S": "s", "C": None, "binary": 4, "prop": 5, "proportion": 6, "offset": 7, "standardize": 8, "scale": 9}


def _world(rng):
    w = gen.gen_world(rng, nmin=5, nmax=12)
    n = w.n
    nn = [rng.randint(1, 6) for _ in range(n)]
    ss = [rng.randint(0, v) for v in nn]
    w.df["w3"] = np.asarray(w.df["w"], dtype=float).astype(np.int64) - 1
    w.df["s"] = np.array(ss, dtype=np.int64)
    w.df["nn"] = np.array(nn, dtype=np.int64)
    w.cols["s"] = {"kind": "num", "v": ss, "decl": []}
    w.cols["nn"] = {"kind": "num", "v": nn, "decl": []}
    # numeric variable seen as a factor (for binary(x, value))
    xs = sorted(set(w.cols["w"]["v"]))
    w.cols["w#cat"] = {"kind": "cat", "v": [xs.index(v) + 1 for v in w.cols["w"]["v"]], "decl": []}
    w.names["w#cat"] = [str(v) for v in xs]
    return w


def _new_frame(rng, w, extra_cols=()):
    n2 = rng.randint(1, w.n)
    sel = [rng.randrange(w.n) for _ in range(n2)]
    new = w.df.iloc[sel].reset_index(drop=True).copy()
    cols = {}
    for name, c in w.cols.items():
        cols[name] = {"kind": c["kind"], "v": [c["v"][i] for i in sel], "decl": list(c["decl"])}
    # change the numeric columns so that "recomputed from the new frame" is visible
    for v in ("x", "z", "w", "nn"):
        vals = [rng.randint(1, 9) for _ in range(n2)]
        if v == "nn":
            vals = [max(a, b) for a, b in zip(vals, cols["s"]["v"])]
        new[v] = np.array(vals, dtype=np.int64)
        cols[v]["v"] = vals
    cols["I(x * 2)"]["v"] = [2 * v for v in cols["x"]["v"]]
    cols["np.abs(x)"]["v"] = [abs(v) for v in cols["x"]["v"]]
    cols["I(z + w)"]["v"] = [a + b for a, b in zip(cols["z"]["v"], cols["w"]["v"])]
    xs = [int(v) for v in w.names["w#cat"]]
    cols["w#cat"]["v"] = [xs.index(v) + 1 if v in xs else 99 for v in cols["w"]["v"]]
    return new, {"n": n2, "cols": cols}


def _events(args):
    idx, seed = args
    rng = random.Random((seed * 49979687 + idx) & 0xFFFFFFFF)
    w = _world(rng)
    base_id = idx * 10
    out = []
    kind = rng.choice(["binary", "binary", "offset", "offset", "prop", "alias", "refuse", "identity"])
    train = {"n": w.n, "cols": copy.deepcopy(w.cols)}
    rhs_extra = rng.choice(["", " + z", " + g", " + z:g"])

    def build_event(text, labels, used, tag):
        st, dm = design.build(text, w.df, extra_namespace=dict(SHADOW))
        ev = {"id": base_id, "kind": "build", "frame": train, "used": used, "policy": "drop", "status": "ok", "views": True, "resp_expected": "~" in text,
              "common": dict(gen.EMPTY), "group": dict(gen.EMPTY), "resp": dict(gen.EMPTY), "tag": tag}
        if st != "ok":
            ev["status"] = type(dm).__name__
            return ev, None
        name = list(dm.common.terms)[0]
        data = design.to_int_matrix(np.asarray(dm.common[name]))
        ev["common"] = {"labels": labels, "data": data, "slices": [[0, len(labels)]], "tcomps": [["helper"]]}
        return ev, dm

    def predict_event(dm, labels, tag, part="common", mat=None):
        new, newabs = _new_frame(rng, w)
        ev = {"id": base_id + 1, "kind": "unseen", "train": train, "new": newabs, "part": "common", "mode": "silent", "status": "ok", "warned": False,
              "labels": labels, "tslices": [[0, len(labels)]], "data": [], "slices": [[0, len(labels)]], "tfac": [], "factors_new": [], "tag": tag}
        try:
            with warnings.catch_warnings():
                warnings.simplefilter("ignore")
                if part == "common":
                    res = dm.common.evaluate_new_data(new)
                    name = list(dm.common.terms)[0]
                    ev["data"] = design.to_int_matrix(np.asarray(res[name]))
                else:
                    ev["data"] = design.to_int_matrix(np.asarray(dm.response.evaluate_new_data(new)))
        except Exception as e:  # pylint: disable=broad-except
            ev["status"] = type(e).__name__
            ev["error"] = str(e)[:120]
        return ev

    if kind == "binary":
        fn = rng.choice(["binary", "B"])
        if rng.random() < 0.5:
            v = rng.choice(["f", "g", "h"])
            code = rng.choice(sorted(set(w.cols[v]["v"]) - {0}))   # a level that occurs (a factor may have more names than rows)
            lvl = w.names[v][code - 1]
            explicit = rng.random() < 0.7
            if not explicit:
                code = min(w.cols[v]["v"])
            call = f"{fn}({v}, '{lvl}')" if explicit else f"{fn}({v})"
            piece = [v, code]
        else:
            vals = sorted(set(w.cols["w"]["v"]))
            val = rng.choice(vals)
            explicit = rng.random() < 0.7
            if not explicit:
                val = vals[0]
            call = f"{fn}(w, {val})" if explicit else f"{fn}(w)"
            piece = ["w#cat", w.names["w#cat"].index(str(val)) + 1]
        text = f"y ~ 0 + {call}{rhs_extra}"
        ev, dm = build_event(text, [[piece]], [piece[0]], "binary")
        out.append((ev, text))
        if dm is not None:
            out.append((predict_event(dm, [[piece]], "binary_prediction"), text + "  [new data]"))
    elif kind == "offset":
        form = rng.choice(["col", "const", "negconst", "floatconst", "call"])
        cols = train["cols"]
        if form == "col":
            call, piece = "offset(w)", ["w", 0]
        elif form == "call":
            call, piece = "offset(I(z + w))", ["I(z + w)", 0]
        else:
            c = {"const": rng.randint(1, 9), "negconst": -rng.randint(1, 9), "floatconst": float(rng.randint(1, 9))}[form]
            call, piece = f"offset({c})", ["#const", 0]
            cols["#const"] = {"kind": "num", "v": [int(c)] * w.n, "decl": []}
            w.cols["#const"] = cols["#const"]
        text = f"y ~ 0 + {call}{rhs_extra}"
        ev, dm = build_event(text, [[piece]], [piece[0]], "offset:" + form)
        out.append((ev, text))
        if dm is not None:
            pe = predict_event(dm, [[piece]], "offset_prediction:" + form)
            if piece[0] == "#const":
                pe["new"]["cols"]["#const"] = {"kind": "num", "v": [cols["#const"]["v"][0]] * pe["new"]["n"], "decl": []}
            out.append((pe, text + "  [new data]"))
    elif kind == "prop":
        alias = rng.choice(["prop", "p", "proportion"])
        form = rng.choice(["col", "const", "kw"])
        if form != "const" and rng.random() < 0.3:
            # the trials column is tied in the training frame (it is still a column: the new frame's values count)
            tied = max(w.cols["s"]["v"]) + rng.randint(0, 2)
            w.cols["nn"]["v"][:] = [tied] * w.n
            train["cols"]["nn"]["v"][:] = [tied] * w.n
            w.df["nn"] = np.array([tied] * w.n, dtype=np.int64)
        if form == "const":
            cst = max(w.cols["s"]["v"]) + rng.randint(0, 2)
            call, pieces = f"{alias}(s, {cst})", [[["s", 0]], [["#const", 0]]]
            train["cols"]["#const"] = {"kind": "num", "v": [cst] * w.n, "decl": []}
            w.cols["#const"] = train["cols"]["#const"]
        elif form == "kw":
            call, pieces = f"{alias}(s, trials=nn)", [[["s", 0]], [["nn", 0]]]
        else:
            call, pieces = f"{alias}(s, nn)", [[["s", 0]], [["nn", 0]]]
        text = f"{call} ~ x{rhs_extra}"
        st, dm = design.build(text, w.df, extra_namespace=dict(SHADOW))
        ev = {"id": base_id, "kind": "build", "frame": train, "used": ["s", "x"], "policy": "drop", "status": "ok", "views": True, "resp_expected": True,
              "common": dict(gen.EMPTY), "group": dict(gen.EMPTY), "resp": dict(gen.EMPTY), "tag": "prop:" + form}
        if st != "ok":
            ev["status"] = type(dm).__name__
        else:
            ev["resp"] = {"labels": pieces, "data": design.to_int_matrix(np.asarray(dm.response.design_matrix)), "slices": [[0, 2]], "tcomps": [["prop"]]}
        out.append((ev, text))
        if st == "ok":
            # prediction: the response reports the trials of the new frame
            pe = predict_event(dm, [pieces[1]], "prop_prediction:" + form, part="response")
            if form == "const":
                pe["new"]["cols"]["#const"] = {"kind": "num", "v": [train["cols"]["#const"]["v"][0]] * pe["new"]["n"], "decl": []}
            out.append((pe, text + "  [new data]"))
    elif kind == "alias":
        a, b = rng.choice([("B(f, 'a')", "binary(f, 'a')"), ("B(w)", "binary(w)"), ("standardize(x)", "scale(x)"), ("T(f, 'b')", "C(f, Treatment('b'))"),
                           ("S(h, 'A x')", "C(h, Sum('A x'))"), ("S(g)", "C(g, Sum)"), ("T(g)", "C(g, Treatment)"), ("T(g)", "C(g)"), ("{x + z}", "I(x + z)"),
                           # a reference / omitted level that is the number 0 (not the smallest level: w3 = w - 1)
                           ("T(w3, 0)", "C(w3, Treatment(0))"), ("S(w3, 0)", "C(w3, Sum(0))"), ("T(w3, ref=0)", "C(w3, Treatment(reference=0))")])
        ta, tb = f"y ~ {a}{rhs_extra}", f"y ~ {b}{rhs_extra}"
        sa, da = design.build(ta, w.df, extra_namespace=dict(SHADOW))
        sb, db = design.build(tb, w.df, extra_namespace=dict(SHADOW))
        ev = {"id": base_id, "kind": "rows", "status": "ok", "a": [], "b": [], "map": [], "la": [], "lb": [], "tag": "alias"}
        if sa != "ok" and sb != "ok":
            pass   # both spellings refuse (e.g. the reference level does not occur in this world): still synonyms
        elif sa != "ok" or sb != "ok":
            ev["status"] = "alias_build_failed:" + type(da if sa != "ok" else db).__name__
        else:
            ma, la = rows.stack(da)
            mb, lb = rows.stack(db)
            ia, ib = rows.intern([ma, mb])
            # names differ by construction; everything else (levels, order) must agree
            a_name = "I(" + a[1:-1] + ")" if a.startswith("{") else a
            la2 = [l.replace(a_name, "@") for l in la]
            lb2 = [l.replace(b, "@") for l in lb]
            ev.update(a=ia, b=ib, map=list(range(1, len(ib) + 1)))
            ev["la"], ev["lb"] = rows.label_ids(la2, lb2)
        out.append((ev, ta + "   vs   " + tb))
        pa, pb = ("p(s, nn)", "prop(s, nn)") if rng.random() < 0.5 else ("proportion(s, 7)", "prop(s, 7)")
        sa, da = design.build(f"{pa} ~ x", w.df, extra_namespace=dict(SHADOW))
        sb, db = design.build(f"{pb} ~ x", w.df, extra_namespace=dict(SHADOW))
        ev2 = {"id": base_id + 1, "kind": "rows", "status": "ok", "a": [], "b": [], "map": [], "la": [], "lb": [], "tag": "alias_prop"}
        if sa != "ok" or sb != "ok":
            ev2["status"] = "alias_build_failed"
        else:
            ia, ib = rows.intern([np.asarray(da.response.design_matrix, dtype=float), np.asarray(db.response.design_matrix, dtype=float)])
            ev2.update(a=ia, b=ib, map=list(range(1, len(ib) + 1)), la=[1], lb=[1])
        out.append((ev2, pa + " vs " + pb))
    elif kind == "refuse":
        bad = rng.choice(["binary_missing", "prop_gt", "prop_frac", "offset_resp", "prop_pred", "offset_cat"])
        df = w.df.copy()
        if bad == "binary_missing":
            text = rng.choice(["y ~ binary(f, 'nope')", "y ~ B(w, 12345)", "y ~ binary(g, 'g1')"])
        elif bad == "prop_gt":
            df.loc[df.index[0], "s"] = int(df["nn"].iloc[0]) + 3
            text = "prop(s, nn) ~ x"
        elif bad == "prop_frac":
            df["s"] = df["s"].astype(float) + 0.25
            text = "prop(s, nn) ~ x"
        elif bad == "offset_resp":
            text = "offset(w) ~ x"
        elif bad == "prop_pred":
            text = "y ~ prop(s, nn)"
        else:
            text = "y ~ offset(f)"
        st, dm = design.build(text, df)
        out.append(({"id": base_id, "kind": "refuse", "status": "ok" if st == "ok" else type(dm).__name__, "tag": bad}, text))
    else:
        e = rng.choice(["x + z", "x * 2", "z - w", "x * z + 1"])
        expected = {"x + z": [a + b for a, b in zip(w.cols["x"]["v"], w.cols["z"]["v"])], "x * 2": [2 * a for a in w.cols["x"]["v"]],
                    "z - w": [a - b for a, b in zip(w.cols["z"]["v"], w.cols["w"]["v"])], "x * z + 1": [a * b + 1 for a, b in zip(w.cols["x"]["v"], w.cols["z"]["v"])]}[e]
        train["cols"]["#expr"] = {"kind": "num", "v": expected, "decl": []}
        w.cols["#expr"] = train["cols"]["#expr"]
        form = rng.choice(["I(%s)", "{%s}"]) % e
        text = f"y ~ 0 + {form}{rhs_extra}"
        ev, dm = build_event(text, [[["#expr", 0]]], ["x", "z", "w"], "identity")
        out.append((ev, text))
    return out


LETTERS = "abcd"


def _helper_case(args):
    """One terminal state of Helpers_MC replayed into /repo: the helper written in a formula, the design
    built on the training column(s) and then evaluated on the new column."""
    c, seed, k = args
    rng = random.Random((seed * 7919 + k) & 0xFFFFFFFF)
    h = c["h"]
    n, m = len(c["x"]), len(c["new"])
    probs = []
    # renderings of the abstract values 0..3: themselves, letters, or integers whose text order differs from
    # their numeric order (7 < 9 < 10 < 12, but '10' < '12' < '7' < '9')
    WIDE = [7, 9, 10, 12]
    renderings = ["int", "str", "wide"] if h == "binary" else ["int"]
    for rd in renderings:
        def val(v):
            return LETTERS[v] if rd == "str" else (WIDE[v] if rd == "wide" else v)

        def lit(v):
            return repr(LETTERS[v]) if rd == "str" else str(val(v))

        train = pd.DataFrame({"y": np.arange(n, dtype=float)})
        new = pd.DataFrame({"y": np.zeros(m)})
        if h == "binary":
            xs = [val(v) for v in c["x"]]
            store = rng.choice(["plain", "categorical"]) if rd == "str" else rng.choice(["plain", "float"] if rd == "int" else ["plain", "plain", "float"])
            train["x"] = pd.Categorical(xs) if store == "categorical" else (np.array(xs, dtype=float) if store == "float" else xs)
            new["x"] = [val(v) for v in c["new"]]
            fn = rng.choice(["binary", "B"])
            call = f"{fn}(x)" if c["arg"] == 99 else rng.choice([f"{fn}(x, {lit(c['arg'])})", f"{fn}(x, success={lit(c['arg'])})"])
            text, part = f"y ~ 0 + {call}", "common"
        elif h in ("offset_col", "offset_const"):
            train["x"] = np.array(c["x"], dtype=rng.choice([np.int64, float]))
            new["x"] = np.array(c["new"], dtype=np.int64)
            call = "offset(x)" if h == "offset_col" else rng.choice([f"offset({c['arg']})", f"offset({float(c['arg'])})"])
            text, part = f"y ~ 0 + {call}", "common"
        else:
            train["s"] = np.array(c["x"], dtype=np.int64)
            train["x"] = np.arange(n, dtype=float)
            new["s"] = np.zeros(m, dtype=np.int64)
            new["x"] = np.arange(m, dtype=float)
            alias = rng.choice(["prop", "p", "proportion"])
            if h == "prop_col":
                train["n"] = np.array(c["x2"], dtype=np.int64)
                new["n"] = np.array(c["new"], dtype=np.int64)
                call = rng.choice([f"{alias}(s, n)", f"{alias}(s, trials=n)"])
            else:
                call = rng.choice([f"{alias}(s, {c['arg']})", f"{alias}(s, trials={c['arg']})"])
            text, part = f"{call} ~ x", "response"
        base = {"helper": h, "formula": text, "rendering": rd, "train": {k2: [str(v) for v in train[k2]] for k2 in train.columns if k2 != "y"},
                "new": {k2: [str(v) for v in new[k2]] for k2 in new.columns if k2 != "y"}}
        st, dm = design.build(text, train, extra_namespace=dict(SHADOW))
        if c["refused"]:
            if st == "ok":
                probs.append(({"clause": "helper_accepted_input_it_must_refuse", "helper": h}, base))
            continue
        if st != "ok":
            probs.append(({"clause": "helper_refused_valid_input", "helper": h, "exc": type(dm).__name__}, dict(base, error=str(dm)[:120])))
            continue
        mat = dm.common if part == "common" else dm.response
        got = np.asarray(mat.design_matrix, dtype=float).reshape(n, -1)
        want = np.array(c["train"], dtype=float).T.reshape(n, -1)
        if got.shape != want.shape or not np.array_equal(got, want):
            probs.append(({"clause": "helper_training_column_differs_from_meaning", "helper": h}, dict(base, got=got.tolist(), want=want.tolist())))
            continue
        try:
            with warnings.catch_warnings():
                warnings.simplefilter("ignore")
                res = mat.evaluate_new_data(new)
            rawn = np.asarray(res.design_matrix if hasattr(res, "design_matrix") else res, dtype=float)
            if rawn.ndim == 0 or rawn.shape[0] != m:
                probs.append(({"clause": "helper_new_frame_result_not_one_entry_per_row", "helper": h}, dict(base, got_shape=list(rawn.shape), rows=m)))
                continue
            gotn = rawn.reshape(m, -1)
        except Exception as e:  # pylint: disable=broad-except
            probs.append(({"clause": "helper_fails_on_new_frame", "helper": h, "exc": type(e).__name__}, dict(base, error=str(e)[:120])))
            continue
        wantn = np.array(c["pred"], dtype=float).reshape(m, -1)
        if gotn.shape != wantn.shape or not np.array_equal(gotn, wantn):
            probs.append(({"clause": "helper_new_frame_column_differs_from_meaning", "helper": h}, dict(base, got=gotn.tolist(), want=wantn.tolist())))
    return probs


def helpers_mc(rep, seed, maxlen, maxnew):
    """Helpers.tla: every training column / argument / new column of the small scope."""
    tmp = tlc.scratch_dir("fv_c16_")
    try:
        out = os.path.join(tmp, "h.ndjson")
        cfg = common.write_cfg(os.path.join(tmp, "c.cfg"), constants={"MaxLen": maxlen, "MaxNew": maxnew, "Vals": "{0, 1, 2}", "NewVals": "{0, 1, 2, 3}", "DoExport": True},
                               invariants=["Meaning", "BinaryPointwise", "NewShape", "Export"], properties=["Frozen"])
        with open(cfg, "a", encoding="utf-8") as fh:
            fh.write("CONSTANT None <- NoneDef\n")
        res = tlc.run_tlc("Helpers_MC", cfg=cfg, env={"FV_OUT": out}, workers=8, heap="4g", timeout=1800, allow_violation=True, coverage=True)
        rep.add_tlc(f"Helpers_MC maxlen={maxlen} maxnew={maxnew}", res)
        if res.violated:
            rep.violation({"clause": "spec_level:" + ",".join(res.violated), "site": "Helpers.tla"}, {"tlc_tail": res.out[-2000:]})
            return
        rep.notes["helpers_actions_never_taken"] = [a for a, (d, t) in res.coverage.items() if t == 0]
        cases = tlc.read_export(out)
    finally:
        shutil.rmtree(tmp, ignore_errors=True)
    results = common.pool_map(_helper_case, [(c, seed, k) for k, c in enumerate(cases)])
    for c, probs in zip(cases, results):
        rep.cov["evaluations"] += 1
        rep.nontrivial_key("H:" + repr((c["h"], c["x"], c["x2"], c["arg"], c["new"])))
        for sig, case in probs:
            rep.violation(dict(sig, site="formulae.transforms / Call.eval_new_data", judge="Helpers_MC"), case)
    rep.count("s2c_helper_cases", len(cases))
    for c in [x for x in cases if x["h"] == "binary" and not x["refused"]][:1] + [x for x in cases if x["h"] == "prop_col" and not x["refused"]][:1]:
        rep.sample({"kind": "S->C helper case", **{k: c[k] for k in ("h", "x", "x2", "arg", "new", "train", "pred")}})


def main(tier, seed):
    common.use_repo()
    rep = Report("C16", tier, seed)
    rep.rule = (
        "S->C: Helpers_MC (binary / offset / prop as train-then-predict state machines): every training column of <= 3 rows over 3 values x "
        "every success / constant / trials argument (incl. omitted and never-occurring) x every new column of <= 2 (thorough 3) rows over 4 values "
        "(incl. unseen), written in a formula with integer and string renderings and all alias / keyword spellings, compared with the spec's columns. "
        "C->S: random worlds; per event one helper: binary/B with explicit and default success on str and numeric variables (training and "
        "new frames lacking the success level), offset of a column / call / positive, negative and float constant (training and new frames "
        "with changed values), prop/p/proportion with column, keyword and constant trials (training response and trials of the new frame), "
        "I / {} of arithmetic, alias pairs as row relations, and invalid arguments that must be refused. Every cell judged by Design_Trace "
        "with the label the statement assigns. Non-trivial = distinct events."
    )
    rep.assumptions = ["the meaning of a helper's column is the label assigned in fv/drivers/c16.py from the statement (binary = indicator, offset(v) = v, prop = successes & trials, I(e) = e)"]
    helpers_mc(rep, seed, 3, 2 if tier == "quick" else 3)
    from fv import callkinds

    callkinds.run(rep, "C16")   # CallKinds.tla: what becomes of the value a call returns
    n = 500 if tier == "quick" else 12000
    results = common.pool_map(_events, [(i, seed) for i in range(n)])
    events, texts = [], {}
    eid = 0
    for lst in results:
        for ev, text in lst:
            eid += 1
            ev["id"] = eid
            rep.cov["evaluations"] += 1
            events.append(ev)
            texts[eid] = text
            rep.nontrivial_key(ev.get("tag", "") + ":" + text)
    design_trace.CLAUSE_PROPS.update({
        "common_cells_differ_from_label_meaning": ["C04", "C16"], "response_cells_differ_from_label_meaning": ["C15", "C16"],
        "exception_on_valid_input": ["C16"], "cells_differ_from_unseen_level_rule": ["C10", "C16"], "exception_on_new_data": ["C10", "C16"],
        "rows_not_one_per_observation": ["C17", "C16"], "exception": ["C16"], "rows_differ": ["C16"], "labels_changed": ["C16"], "row_count_differs": ["C16"],
        "unseen_level_not_refused_in_error_mode": ["C16"],
    })
    emap = {e["id"]: e for e in events}
    slim = [{k: v for k, v in e.items() if k != "error"} for e in events]
    design_trace.judge(rep, "C16", slim, lambda e: {"formula": texts[e["id"]], "tag": e.get("tag"), "status": e.get("status"), "error": emap[e["id"]].get("error"),
                                                    "data": e.get("data") or e.get("common", {}).get("data") or e.get("resp", {}).get("data")})
    for e in events[:3]:
        rep.sample({"kind": "C->S helper event", "formula": texts[e["id"]], "event_kind": e["kind"], "tag": e.get("tag")})
    rep.cov["states"] = max(rep.cov["states"], 1)
    return rep.finish()
