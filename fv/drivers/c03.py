"""C03 Common-effects matrix has full column rank and spans exactly the model space.

Contrasts.tla decides, family by family, whether a coding covers every required atom exactly once
(Abs) and what coding formulae's algorithm picks (Impl).  Every family TLC enumerates is exported
with its required atoms; the harness builds replicated complete-factorial data with random level
counts, asks /repo for the design and checks with exact integer linear algebra that
rank(X) = ncol(X) = sum over atoms of prod (levels - 1) and rank([X B]) = rank(B), B being the
full-indicator coding of every term (built from the family, not from the code).
"""
import itertools
import os
import random
import shutil

import numpy as np
import pandas as pd

from fv import common, design, rank, tlc
from fv.report import Report

IMPL_FLAGS = {"SortByDegree": True, "IterateExtra": True, "NumericBySet": True}
CAT = {"f", "g", "h", "k", "m", "n"}
NUMS = ("x", "z", "w")
LEVEL_NAMES = {"f": ["a", "b", "c", "d"], "g": ["G1", "G2", "G3", "G4"], "h": ["u", "v", "w", "x4"], "k": ["p", "q", "r", "s"],
               "m": ["m1", "m2", "m3", "m4"], "n": ["n1", "n2", "n3", "n4"]}

# atoms: how an abstract factor is written in the formula and how many columns a numeric one has
VARIANTS = {
    "plain": {},
    "C": {"f": "C(f)", "g": "C(g)", "h": "C(h)", "k": "C(k)"},
    "TS": {"f": "T(f, 'b')", "g": "S(g)", "h": "C(h, Sum)", "k": "T(k)"},
    "num": {"x": "scale(x)", "z": "center(z)"},
    "spline": {"x": "bs(x, df=4)", "z": "poly(z, 2)"},
}
NUM_WIDTH = {"x": 1, "z": 1, "w": 1, "scale(x)": 1, "center(z)": 1, "bs(x, df=4)": 4, "poly(z, 2)": 2}


def make_data(rng, factors, numeric_width_total):
    """Replicated complete factorial over the categorical factors with random level counts;
    numeric columns are random integers in general position."""
    cats = [f for f in factors if f in CAT]
    nlev = {f: rng.randint(2, 4) if len(cats) <= 4 else 2 for f in cats}   # many factors: two levels each (the layout stays small)
    cells = list(itertools.product(*[range(nlev[f]) for f in cats])) if cats else [()]
    reps = 2 + 3 * numeric_width_total + rng.randint(0, 1)
    rows = cells * reps
    rng.shuffle(rows)
    data = {}
    for j, f in enumerate(cats):
        data[f] = np.array([LEVEL_NAMES[f][r[j]] for r in rows], dtype=object)
    n = len(rows)
    for v in NUMS:
        data[v] = np.array(rng.sample(range(-60, 60 + 4 * n), n), dtype=np.int64)  # distinct: general position
    data["y"] = np.arange(n)
    return pd.DataFrame(data), nlev


def indicator_basis(df, terms, icpt, nlev, numcols):
    """B: every term coded with the complete set of level indicators times its numeric columns."""
    n = len(df)
    blocks = []
    if icpt:
        blocks.append(np.ones((n, 1), dtype=np.int64))
    for t in terms:
        m = np.ones((n, 1), dtype=np.int64)
        for f in t:
            if f in CAT:
                names = LEVEL_NAMES[f][: nlev[f]]
                ind = np.array([[1 if v == nm else 0 for nm in names] for v in df[f]], dtype=np.int64)
            else:
                ind = numcols[f]
            m = np.einsum("ij,ik->ijk", m, ind).reshape(n, -1)
        blocks.append(m)
    return np.column_stack(blocks)


def dim_of(atoms, nlev, width):
    total = 0
    for nums, cats in atoms:
        d = 1
        for f in cats:
            d *= nlev[f] - 1
        for v in nums:
            d *= width[v]
        total += d
    return total


def _check(args):
    case, seed, variant, shuffle_factors = args
    rng = random.Random((seed * 2654435761 + hash(repr(case["terms"])) + (17 if case["icpt"] else 0) + hash(variant)) & 0xFFFFFFFF)
    terms = [list(t) for t in case["terms"]]
    if shuffle_factors:
        terms = [rng.sample(t, len(t)) for t in terms]
    factors = sorted({f for t in terms for f in t})
    # a variant name ending in 'q' is the same spelling on quarter-valued numeric data (x / 4: exact in binary,
    # but a product computed in an integer type would be truncated)
    quarters = variant.endswith("q")
    variant = variant[:-1] if quarters else variant
    wr = VARIANTS[variant]
    width = {v: NUM_WIDTH[wr.get(v, v)] for v in NUMS}
    numeric_parts = {tuple(sorted(f for f in t if f not in CAT)) for t in terms}
    total_w = sum(int(np.prod([width[v] for v in part])) for part in numeric_parts if part)
    df, nlev = make_data(rng, factors, total_w)
    if quarters:
        df["x"] = df["x"] / 4.0
        df["z"] = df["z"] / 4.0
    text = "y ~ " + ("" if case["icpt"] else "0 + ") + " + ".join(":".join(wr.get(f, f) for f in t) for t in terms)
    if case.get("text"):
        text = case["text"]  # the same family spelled with operators (/, *, : over sums): terms share components
    st, dm = design.build(text, df)
    base = {"formula": text, "levels": nlev, "n": len(df), "variant": variant + ("q" if quarters else "")}
    sig_extra = {"impl_status": case["impl_status"], "impl_exact": case["impl_exact"], "order_mismatch": bool(case.get("order_mismatch"))}
    if st != "ok":
        return ({"clause": "exception_on_buildable_family", "exc": type(dm).__name__, "site": "Model.eval", **sig_extra}, dict(base, error=str(dm)[:160])), ("exc", type(dm).__name__)
    x = np.asarray(dm.common.design_matrix)
    integer = rank.is_int_matrix(x)
    # numeric columns exactly as the code evaluated them (bs/poly/scale) for the reference basis
    numcols = {}
    for v in NUMS:
        name = wr.get(v, v)
        if any(v in t for t in terms):
            term = None
            for tn, tt in dm.common.terms.items():
                for c in getattr(tt, "components", []):
                    if str(c.name) == name:
                        term = c
            if term is None:
                return ({"clause": "numeric_component_not_found", **sig_extra}, base), ("harness", "")
            val = np.asarray(term.value)
            numcols[v] = val.reshape(len(df), -1)
    want = dim_of(case["atoms"], nlev, width)
    # exact integer arithmetic only when the numeric columns the code evaluated are integers too (an
    # integer design built from non-integer columns is itself a symptom, decided in floating point)
    integer = integer and all(rank.is_int_matrix(c) for c in numcols.values())
    if integer:
        xi = np.round(x).astype(np.int64)
        b = indicator_basis(df, terms, case["icpt"], nlev, {v: np.round(c).astype(np.int64) for v, c in numcols.items()})
        rx, rb = rank.rank_int(xi), rank.rank_int(b)
        rxb = rank.rank_int(np.column_stack([xi, b]))
    else:
        b = indicator_basis(df, terms, case["icpt"], nlev, {v: c.astype(float) for v, c in numcols.items()}).astype(float)
        rx, c1 = rank.rank_float(x)
        rb, c2 = rank.rank_float(b)
        rxb, c3 = rank.rank_float(np.column_stack([x, b]))
        if not (c1 and c2 and c3):
            return None, ("unclear", "")
    try:
        labels = list(dm.common.as_dataframe().columns)
    except Exception as e:  # pylint: disable=broad-except
        labels = "as_dataframe failed: " + str(e)[:80]
    base.update(ncol=int(x.shape[1]), rank=int(rx), rank_basis=int(rb), rank_joint=int(rxb), dim_abs=int(want), labels=labels)
    if rb != want:
        # the atom theory (or the data) is off: machinery problem, never a verdict
        return ({"clause": "HARNESS_atom_dimension_mismatch", **sig_extra}, base), ("harness", "")
    if rx != x.shape[1]:
        return ({"clause": "columns_linearly_dependent", "site": "design_matrices", **sig_extra}, base), ("bad", "")
    if rxb != rb or rx != rb:
        return ({"clause": "column_space_differs_from_model_space", "site": "design_matrices", **sig_extra}, base), ("bad", "")
    return None, ("ok", "")


def export_families(rep, factors_def, maxarity, maxterms, extra="NoExtra", catf=("f", "g", "h", "k"), flags=None, timeout=3000):
    flags = dict(IMPL_FLAGS if flags is None else flags)
    tmp = tlc.scratch_dir("fv_c03_")
    try:
        out = os.path.join(tmp, "fam.ndjson")
        consts = {"CatF": list(catf), "MaxArity": maxarity, "MaxTerms": maxterms, "DoExport": True}
        consts.update(flags)
        cfg = common.write_cfg(os.path.join(tmp, "c.cfg"), constants=consts, invariants=["Exact", "AllFullCoversReq", "Export"])
        with open(cfg, "a", encoding="utf-8") as fh:
            fh.write(f"CONSTANT Factors <- {factors_def}\nCONSTANT ExtraTerms <- {extra}\n")
        res = tlc.run_tlc("Contrasts_MC", cfg=cfg, env={"FV_OUT": out}, workers=16, heap="12g", timeout=timeout, allow_violation=True)
        rep.add_tlc(f"Contrasts_MC {factors_def} arity<={maxarity} terms<={maxterms} extra={extra}", res)
        if res.violated:
            rep.violation({"clause": "spec_level:" + ",".join(res.violated), "site": "Contrasts.tla Impl layer"}, {"tlc_tail": res.out[-2500:]})
            return []
        return tlc.read_export(out)
    finally:
        shutil.rmtree(tmp, ignore_errors=True)


def replay(rep, cases, seed, variants, shuffle=False, sample=None):
    rng = random.Random(seed)
    if sample and len(cases) > sample:
        cases = rng.sample(cases, sample)
        rep.notes["s2c_replay_sampled"] = True
    jobs = []
    for c in cases:
        for v in variants:
            jobs.append((c, seed, v, shuffle))
    results = common.pool_map(_check, jobs)
    drift = 0
    for (c, _, v, _), (prob, (kind, detail)) in zip(jobs, results):
        rep.cov["evaluations"] += 1
        if kind == "unclear":
            rep.count("float_rank_unclear_not_judged")
            continue
        if len(c["terms"]) >= 2 or any(len(t) >= 2 for t in c["terms"]):
            rep.nontrivial_key("F:" + repr(c["terms"]) + str(c["icpt"]) + v)
        code_ok = prob is None
        if v == "plain" and not shuffle and code_ok != bool(c["impl_exact"]):
            drift += 1
        if prob is not None:
            sig, case = prob
            if sig["clause"].startswith("HARNESS"):
                raise RuntimeError("atom theory / data generation mismatch: " + repr(case)[:600])
            rep.violation(sig, case)
    rep.cov["impl_drift"] += drift
    for c in cases[:: max(1, len(cases) // 2)][:2]:
        rep.sample({"kind": "S->C family", "terms": c["terms"], "icpt": c["icpt"], "required_atoms": c["atoms"]})


def _pick_events(args):
    """Record every call of pick_contrasts made while building random designs."""
    idx, seed = args
    import formulae.terms.terms as T
    from fv import gen

    rng = random.Random((seed * 8191 + idx) & 0xFFFFFFFF)
    w = gen.gen_world(rng, nmin=6, nmax=12)
    text, _, _ = gen.gen_formula(rng, groups=False, max_terms=4, hier=0.3)
    rec = []
    orig = T.pick_contrasts

    def wrapper(group):
        res = orig(group)
        rec.append(
            {
                "group": [[str(k), [str(c) for c in v]] for k, v in group.items()],
                "result": [[str(k), [[[str(f), bool(b)] for f, b in coding.items()] for coding in codings]] for k, codings in res.items()],
            }
        )
        return res

    T.pick_contrasts = wrapper
    try:
        design.build(text, w.df, extra_namespace=dict(w.namespace))
    finally:
        T.pick_contrasts = orig
    return rec, text


def pick_traces(rep, n, seed):
    results = common.pool_map(_pick_events, [(i, seed) for i in range(n)])
    events, texts = [], {}
    for rec, text in results:
        for e in rec:
            e["id"] = len(events) + 1
            texts[e["id"]] = text
            events.append(e)
    tmp = tlc.scratch_dir("fv_c03t_")
    try:
        path = os.path.join(tmp, "t.ndjson")
        common.write_ndjson(path, events)
        cfg = common.write_cfg(os.path.join(tmp, "c.cfg"), constants={"CatF": ["f"], **IMPL_FLAGS}, post="Consumed")
        res = tlc.run_tlc("Contrasts_Trace", cfg=cfg, env={"FV_TRACE": path}, workers=1, heap="4g", timeout=1800)
        rep.add_tlc("Contrasts_Trace", res)
        if not any(v[1] == "done" and v[2] == len(events) for v in res.fv):
            raise tlc.TLCFailure("Contrasts_Trace did not consume the whole trace")
        rep.cov["traces_validated_against_impl"] += len(events)
        bad = [v for v in res.fv if v[1] == "bad"]
        # disagreement with the Impl action is drift (the code took other steps), not a verdict
        rep.cov["impl_drift"] += len(bad)
        if bad:
            rep.notes["pick_contrasts_drift_sample"] = {"clause": bad[0][3], "formula": texts[bad[0][2]], "event": events[bad[0][2] - 1]}
        for e in events[:1]:
            rep.sample({"kind": "C->S pick_contrasts call", "formula": texts[e["id"]], "group": e["group"], "result": e["result"]})
    finally:
        shutil.rmtree(tmp, ignore_errors=True)


OPERATOR_FORMS = [
    "f/g", "f/x", "x/f", "f/g/h", "f:(g + h)", "(f + g):h", "f/(g + h)", "f:g/h", "(f + g)/h", "f*x", "x*f", "f*g", "g*f",
    "f/g + h", "h + f/g", "f:(g + x)", "(f + x):g", "f/(g + x)", "x/(f + g)", "f*g - f", "f*g - g", "f/g + g", "(f + g + h)**2 - f:g - f:h",
    "f*x - x", "f/g:h", "f + f:(g + h)", "(f + g):(f + h)", "(f + g)**2", "f/x + g",
    # the same term reached twice with its factors in another order: one term, one set of columns
    "f:g + g:f", "(f + g)*(f + g)", "(f + g)*(g + f)", "(f + g)*(f + g + h)", "f*g + g:f", "f:g:h + h:f:g + g", "(f + g + h)**2 + g:f",
    "f:x + x:f", "f*g - g:f",
]


def operator_forms(rep, cases, seed):
    """Families written with operators: '/', '*' and ':' over sums build several terms from the same
    component objects; the coding must still be decided per term."""
    from formulae import model_description

    table = {}
    for c in cases:
        table[(frozenset(frozenset(t) for t in c["terms"]), bool(c["icpt"]))] = c
    jobs = []
    for form in OPERATOR_FORMS:
        for pre in ("", "0 + "):
            text = "y ~ " + pre + form
            md = model_description(text)
            terms = [[str(c.name) for c in t.components] for t in md.common_terms if hasattr(t, "components")]
            icpt = any(type(t).__name__ == "Intercept" for t in md.common_terms)
            key = (frozenset(frozenset(t) for t in terms), icpt)
            if key not in table or len(key[0]) != len(terms):
                rep.count("operator_forms_outside_the_enumerated_families")
                continue
            base = table[key]
            case = dict(base, terms=terms, text=text)
            for rep_i in range(3):
                jobs.append((case, seed + rep_i, "plain", False))
    results = common.pool_map(_check, jobs)
    for (c, _, v, _), (prob, (kind, detail)) in zip(jobs, results):
        rep.cov["evaluations"] += 1
        rep.nontrivial_key("O:" + c["text"])
        if prob is not None:
            sig, case = prob
            if sig["clause"].startswith("HARNESS"):
                raise RuntimeError("atom theory / data generation mismatch: " + repr(case)[:600])
            rep.violation(dict(sig, spelled_with_operators=True), case)
    rep.count("operator_forms", len(jobs))


def main(tier, seed):
    common.use_repo()
    rep = Report("C03", tier, seed)
    rep.rule = (
        "S->C: every ordered family of <= 3 terms (<= 3 factors each) over {f,g,h,x} with and without intercept (4760), plus "
        "families with swapped factor orders, all families of <= 2 terms of arity <= 4 over four categorical factors; thorough adds "
        "all families of <= 4 such terms (sampled) "
        "and {f,g,h,x,z}; each on replicated complete-factorial data with random level counts 2..4, as plain variables and as "
        "C/T/S/scale/center/bs/poly atoms, with random factor order inside terms. Exact integer ranks (mod p, confirmed) for "
        "integer designs, SVD with a gap test for spline/poly/scale atoms. Non-trivial = distinct (family, atom variant) with "
        ">= 2 terms or an interaction."
    )
    rep.assumptions = [
        "families are sets of terms: two terms with the same factor set are outside the domain",
        "distinct numeric atoms of one formula are built on distinct data columns; bs only with intercept=False",
        "float-rank cases whose singular-value gap is not unambiguous are counted, not judged",
    ]
    cases = export_families(rep, "FactorsDef4", 3, 3)
    if tier == "quick":
        replay(rep, cases, seed, ["plain"], sample=2500)
        replay(rep, cases, seed + 1, ["C", "TS", "num", "spline"], shuffle=True, sample=250)
        replay(rep, [c for c in cases if any("x" in t for t in c["terms"])], seed + 5, ["plainq", "TSq"], shuffle=True, sample=300)
        sw = export_families(rep, "FactorsDef5", 3, 2, extra="SwapExtra")
        sw3 = [c for c in sw if any(len(t) == 3 for t in c["terms"])]
        sw = sw3 + [c for c in sw if c not in sw3][: max(0, 1500 - len(sw3))] if len(sw3) < 1500 else sw
        replay(rep, sw, seed + 2, ["plain"], sample=500)
        replay(rep, sw, seed + 4, ["plain"], shuffle=True, sample=500)   # random factor order inside every term
        operator_forms(rep, cases, seed)
        # four-way interactions need one more round of extra terms than any three-way family
        c4 = export_families(rep, "FactorsCat4", 4, 2)
        replay(rep, c4, seed + 3, ["plain"])
        # six factors: two disjoint three-way interactions (the rounds of extra terms can outnumber the written terms)
        c6 = export_families(rep, "FactorsCat6", 3, 2, catf=("f", "g", "h", "k", "m", "n"))
        c6 = [c for c in c6 if len({f for t in c["terms"] for f in t}) >= 5]
        replay(rep, c6, seed + 6, ["plain"], sample=400)
        # three numeric variables: the numeric part of a mixed interaction is recognised in every order of its factors
        n3 = export_families(rep, "FactorsNum3", 4, 2, catf=("f",))
        n3 = [c for c in n3 if any(sum(1 for f in t if f in NUMS) >= 3 for t in c["terms"])]
        replay(rep, n3, seed + 7, ["plain"], shuffle=True)
        replay(rep, n3, seed + 8, ["plain"], shuffle=True)
        pick_traces(rep, 400, seed)
    else:
        replay(rep, cases, seed, ["plain"])
        replay(rep, cases, seed + 1, ["C", "TS", "num", "spline"], shuffle=True, sample=4000)
        replay(rep, [c for c in cases if any("x" in t for t in c["terms"])], seed + 5, ["plainq", "TSq", "Cq"], shuffle=True, sample=6000)
        sw = export_families(rep, "FactorsDef5", 3, 3, extra="SwapExtra", timeout=6000)
        replay(rep, sw, seed + 2, ["plain"], sample=20000)
        replay(rep, sw, seed + 4, ["plain"], shuffle=True, sample=20000)
        operator_forms(rep, cases, seed)
        c4 = export_families(rep, "FactorsCat4", 4, 4, timeout=6000)
        replay(rep, c4, seed + 3, ["plain"], sample=20000)
        c6 = export_families(rep, "FactorsCat6", 3, 2, catf=("f", "g", "h", "k", "m", "n"))
        c6 = [c for c in c6 if len({f for t in c["terms"] for f in t}) >= 5]
        replay(rep, c6, seed + 6, ["plain"], sample=3000)
        n3 = export_families(rep, "FactorsNum3", 4, 2, catf=("f",))
        n3 = [c for c in n3 if any(sum(1 for f in t if f in NUMS) >= 3 for t in c["terms"])]
        for k in range(6):
            replay(rep, n3, seed + 7 + k, ["plain"], shuffle=True)
        pick_traces(rep, 8000, seed)
    rep.exhaustive = not rep.notes.get("s2c_replay_sampled", False)
    return rep.finish()
