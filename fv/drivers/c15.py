"""C15 Response handling (first cut: numeric / categorical responses through the design judge;
subset notation, prop and predictor independence are added in fv/drivers/c15.py:forms)."""
from fv import common, design_mc, design_trace
from fv.report import Report


def main(tier, seed):
    common.use_repo()
    rep = Report("C15", tier, seed)
    rep.rule = "S->C: Design_MC incl. a categorical response; C->S: random worlds x responses {numeric, str, Categorical, ordered, C(k)} x generated right-hand sides judged by Design_Trace (response cells = label meaning, levels sorted/declared). Non-trivial = distinct cases with >= 3 / >= 4 design columns."
    rep.assumptions = ["label pieces parsed with the generator's name tables"]
    from fv.drivers import c15_forms

    n = 1200 if tier == "quick" else 20000
    design_mc.run(rep, "C15", seed, n=3, nf=3, ng=2)
    from fv import callkinds

    callkinds.run(rep, "C15")   # CallKinds.tla: what becomes of the value a call returns
    design_trace.run(rep, "C15", n, seed, {"nmax": 14, "resps": ["y", "f", "o", "h", "g", "z", "kcat", ""], "salt": 15})
    # "returned unchanged": missing values in columns the formula does not use must not cost the response a row
    design_trace.run(rep, "C15", n // 3, seed, {"nmax": 14, "resps": ["y", "f", "o", "z"], "salt": 16, "na_rate": 0.2, "na_cols": ("u1", "u2", "w", "xc"), "only_resp": True})
    c15_forms.run(rep, 400 if tier == "quick" else 6000, seed)
    rep.exhaustive = True
    return rep.finish()
