"""Abstraction (projection) functions from formulae objects to the values the TLA+ modules
talk about.  Trusted glue: keep it small and dumb."""


def term_abs(term):
    """Term -> sorted list of component names; Intercept -> ['1']."""
    cls = type(term).__name__
    if cls == "Intercept":
        return ["1"]
    if cls == "NegatedIntercept":
        return ["0"]
    # a back-quoted variable whose name is not an identifier is written with its back-quotes: `f(x, 2)` (a column)
    # is not the call f(x, 2)
    return sorted(("`%s`" % c.name) if type(c).__name__ == "Variable" and not str(c.name).isidentifier() else str(c.name) for c in term.components)


def model_abs(model):
    """Model -> {resp, icpt, terms: sorted list of sorted factor-name lists, groups: sorted list
    of [effect factors or ['1'], grouping factors]} (a term is its set of factors)."""
    resp = None
    if model.response is not None:
        resp = str(model.response.term.name)
    terms, icpt = [], False
    for t in model.common_terms:
        a = term_abs(t)
        if a == ["1"]:
            icpt = True
        elif a == ["0"]:
            terms.append(["<NegatedIntercept>"])
        else:
            terms.append(a)
    groups = []
    for g in model.group_terms:
        groups.append([term_abs(g.expr), term_abs(g.factor)])
    # the name of a term spells exactly its factors, each once, in the order of the components
    def _name_ok(term):
        if type(term).__name__ in ("Intercept", "NegatedIntercept"):
            return True
        return str(term.name) == ":".join(str(c.name) for c in term.components)

    bad_names = [str(t.name) for t in model.common_terms if not _name_ok(t)]
    for g in model.group_terms:
        if not (_name_ok(g.expr) and _name_ok(g.factor)):
            bad_names.append(str(g.name))
        else:
            e = "1" if type(g.expr).__name__ == "Intercept" else str(g.expr.name)
            if str(g.name) != e + "|" + str(g.factor.name):
                bad_names.append(str(g.name))
    n_terms, n_groups = len(terms), len(groups)
    terms = sorted({tuple(t) for t in terms})
    groups = sorted({(tuple(e), tuple(f)) for e, f in groups})
    return {
        "resp": resp,
        "icpt": icpt,
        "terms": [list(t) for t in terms],
        "groups": [[list(e), list(f)] for e, f in groups],
        "dup_terms": n_terms - len(terms),
        "dup_groups": n_groups - len(groups),
        "bad_names": bad_names,
    }
