"""Glue between the abstract frames / designs of spec/Design.tla and pandas / formulae.

Abstract frame (as exported by TLC or produced by the generators here):
  {"n": int, "cols": {name: {"kind": "num"|"cat", "v": [...], "decl": [...]}}}
  numeric NA = -99; categorical cells are level codes >= 1 (0 = missing) whose numeric order is
  the sorted order of the level names.
"""
import math
import warnings

import numpy as np
import pandas as pd

NA = -99

# level-name pools: names[k-1] is the name of code k; every pool is sorted() ascending so that
# "sorted levels" = "ascending codes"
LEVEL_POOLS = [
    ["a", "b", "c", "d", "e", "f"],
    ["L10", "L2", "L3", "L4", "L5", "L6"],
    ["A x", "B-y", "b.1", "c", "d", "zz"],
]
for _p in LEVEL_POOLS:
    assert sorted(_p) == _p


def level_names(variant):
    return LEVEL_POOLS[variant % len(LEVEL_POOLS)]


def materialize(frame, variant=0, cat_style="str", index=None):
    """Abstract frame -> DataFrame.  cat_style: 'str' | 'cat' (unordered Categorical, categories
    listed in reverse order) | 'ord' (ordered Categorical with the declared order)."""
    data = {}
    names = level_names(variant)
    for name, col in frame["cols"].items():
        if col["kind"] == "num":
            vals = [np.nan if v == NA else v for v in col["v"]]
            if any(v == NA for v in col["v"]):
                data[name] = np.array(vals, dtype=float)
            else:
                data[name] = np.array(vals, dtype=np.int64)
        else:
            vals = [None if c == 0 else names[c - 1] for c in col["v"]]
            decl = col.get("decl") or []
            if decl:
                data[name] = pd.Categorical(vals, categories=[names[c - 1] for c in decl], ordered=True)
            elif cat_style == "cat":
                present = sorted({v for v in vals if v is not None}, reverse=True)
                data[name] = pd.Categorical(vals, categories=present, ordered=False)
            else:
                data[name] = pd.array(vals, dtype="str") if hasattr(pd, "StringDtype") and cat_style == "strdtype" else np.array(vals, dtype=object)
    df = pd.DataFrame(data)
    if index is not None:
        df.index = index
    return df


def piece_str(piece, names):
    v, lvl = piece
    return v if lvl == 0 else f"{v}[{names[lvl - 1]}]"


def label_str(label, names):
    if not label:
        return "Intercept"
    return ":".join(piece_str(p, names) for p in label)


def group_label_str(label, names):
    eff, grp = label
    e = ":".join(piece_str(p, names) for p in eff) if eff else "1"
    return e + "|" + ":".join(piece_str(p, names) for p in grp)


def to_int_matrix(m, ncols=None):
    """numpy matrix -> list of rows of ints (NaN -> NA).  Raises ValueError on non-integers."""
    a = np.asarray(m)
    if a.ndim == 1:
        a = a[:, None]
    out = []
    for row in a:
        r = []
        for x in row:
            if isinstance(x, (float, np.floating)) and math.isnan(x):
                r.append(NA)
            else:
                xf = float(x)
                if xf != round(xf):
                    raise ValueError(f"non-integer cell {x}")
                r.append(int(round(xf)))
        out.append(r)
    return out


def build(formula, df, na_action="drop", **kw):
    """design_matrices with formulae's logging silenced; returns ('ok', dm) | ('exc', exception)."""
    from formulae import design_matrices

    try:
        with warnings.catch_warnings():
            warnings.simplefilter("ignore")
            if na_action is None:
                dm = design_matrices(formula, df, **kw)   # the documented default policy ('drop')
            else:
                dm = design_matrices(formula, df, na_action=na_action, **kw)
        return "ok", dm
    except Exception as e:  # pylint: disable=broad-except
        return "exc", e


def observe(dm):
    """What a DesignMatrices object shows through its public surface."""
    out = {}
    if dm.response is not None:
        out["resp"] = to_int_matrix(dm.response.design_matrix)
        out["resp_kind"] = dm.response.kind
        out["resp_levels"] = dm.response.levels
    else:
        out["resp"] = None
    if dm.common is not None:
        out["common"] = to_int_matrix(dm.common.design_matrix)
        out["common_labels"] = list(dm.common.as_dataframe().columns)
        out["common_slices"] = [[s.start, s.stop] for s in dm.common.slices.values()]
        out["common_terms"] = list(dm.common.slices.keys())
    else:
        out["common"] = None
    if dm.group is not None:
        out["group"] = to_int_matrix(dm.group.design_matrix)
        labs = []
        for name, term in dm.group.terms.items():
            labs.extend(term.labels)
        out["group_labels"] = labs
        out["group_slices"] = [[s.start, s.stop] for s in dm.group.slices.values()]
        out["group_terms"] = list(dm.group.slices.keys())
    else:
        out["group"] = None
    return out


def compare_design(d, obs, names, n_rows):
    """Abstract design d (TLC) vs observation of the real DesignMatrices.  Returns a list of
    (clause, part, detail)."""
    probs = []
    want_common_labels = [label_str(l, names) for l in d["common_labels"]]
    want_group_labels = [group_label_str(l, names) for l in d["group_labels"]]
    # common
    if want_common_labels:
        if obs["common"] is None:
            probs.append(("matrix_missing", "common", ""))
        else:
            if obs["common_labels"] != want_common_labels:
                probs.append(("labels_differ", "common", {"got": obs["common_labels"], "want": want_common_labels}))
            elif obs["common"] != d["common"]:
                probs.append(("cells_differ_from_label_meaning", "common", {"got": obs["common"], "want": d["common"]}))
            if obs["common_slices"] != [list(s) for s in d["common_slices"]]:
                probs.append(("slices_differ", "common", {"got": obs["common_slices"], "want": d["common_slices"]}))
    elif obs["common"] is not None:
        probs.append(("unexpected_matrix", "common", obs["common_labels"]))
    # group
    if want_group_labels:
        if obs["group"] is None:
            probs.append(("matrix_missing", "group", ""))
        else:
            if obs["group_labels"] != want_group_labels:
                probs.append(("labels_differ", "group", {"got": obs["group_labels"], "want": want_group_labels}))
            elif obs["group"] != d["group"]:
                probs.append(("cells_differ_from_label_meaning", "group", {"got": obs["group"], "want": d["group"]}))
            if obs["group_slices"] != [list(s) for s in d["group_slices"]]:
                probs.append(("slices_differ", "group", {"got": obs["group_slices"], "want": d["group_slices"]}))
    elif obs["group"] is not None:
        probs.append(("unexpected_matrix", "group", obs["group_labels"]))
    # response
    if d["resp_labels"]:
        if obs["resp"] is None:
            probs.append(("matrix_missing", "response", ""))
        elif obs["resp"] != d["resp"]:
            probs.append(("cells_differ_from_label_meaning", "response", {"got": obs["resp"], "want": d["resp"]}))
    elif obs["resp"] is not None:
        probs.append(("unexpected_matrix", "response", ""))
    # row alignment
    for part in ("resp", "common", "group"):
        if obs.get(part) is not None and len(obs[part]) != n_rows:
            probs.append(("row_count_differs", part, {"got": len(obs[part]), "want": n_rows}))
    return probs
