"""Design_MC: run TLC on the small-scope design model, replay every exported build / evaluation
into formulae, and sort what disagrees by the property it belongs to."""
import os
import random
import shutil

from fv import common, design, tlc

INVARIANTS = ["SubsetReproduces", "ShapeOK", "GroupBlock", "UnseenTheorem", "Export"]
PROPERTIES = ["PermEquivariant", "NATheorem", "UnusedIgnored"]


def _props_for(case, clause, part):
    if case["phase"] == "evaluated":
        return ["C10"] if case["res"].get("status") == "unseen" else ["C06"]
    if case["opn"] == 1:
        return ["C08"]
    if case["opn"] == 2:
        return ["C09"]
    if clause in ("slices_differ", "row_count_differs"):
        return ["C17"]
    if part == "response":
        return ["C15"]
    if part == "group":
        return ["C04", "C05"]
    return ["C04"]


def _replay(args):
    case, seed = args
    rng = random.Random((seed * 31 + case["form"] * 1009 + hash(str(case["frame"])) % 100003) & 0xFFFFFFFF)
    variant = rng.randint(0, 2)
    style = rng.choice(["str", "cat"])
    names = design.level_names(variant)
    frame = case["frame"]
    df = design.materialize(frame, variant, style)
    d = case["d"]
    policy = case["policy"]
    if "@" in case["txt"]:
        # subset notation: @k is the name of level k of the variant's pool (a code beyond the pool: a level that never occurs)
        import re

        case = dict(case, txt=re.sub(r"@(\d)", lambda m: repr(names[int(m.group(1)) - 1] if int(m.group(1)) <= len(names) else "zzz_none"), case["txt"]))
    base = {"formula": case["txt"], "frame": frame, "policy": policy, "variant": variant, "style": style, "phase": case["phase"], "opn": case["opn"]}
    out = []  # (props, sig, casedata)
    ood = 0
    if policy == "pass":
        used_cat_missing = any(c["kind"] == "cat" and 0 in c["v"] for c in frame["cols"].values())
        if used_cat_missing:
            return out, 1
    st, dm = design.build(case["txt"], df, na_action=policy)
    if d["status"] == "error":
        if st == "ok":
            out.append((["C09"], {"clause": "incomplete_rows_not_refused", "site": "design_matrices"}, base))
        elif not isinstance(dm, ValueError):
            out.append((["C09"], {"clause": "wrong_exception_for_incomplete_rows", "exc": type(dm).__name__}, base))
        return out, 0
    if d["status"] != "ok":
        return out, 1
    if st != "ok":
        if any(a == b for a, b in d["common_slices"]) or any(a == b for a, b in d["group_slices"]):
            return out, 1  # a term of zero width (single-level factor, reduced): degenerate data, not judged
        props = _props_for(case, "exception", "common")
        out.append((props, {"clause": "exception_on_valid_input", "exc": type(dm).__name__, "site": "design_matrices"}, dict(base, error=str(dm)[:200])))
        return out, 0
    try:
        obs = design.observe(dm)
    except Exception as e:  # pylint: disable=broad-except
        out.append((["C17"], {"clause": "matrix_object_unreadable", "exc": type(e).__name__}, dict(base, error=str(e)[:200])))
        return out, 0
    if case["phase"] == "built":
        for clause, part, detail in design.compare_design(d, obs, names, len(d["rows"])):
            out.append((_props_for(case, clause, part), {"clause": clause, "part": part, "site": "design_matrices"}, dict(base, detail=detail)))
        return out, 0
    res = case["res"]
    if res.get("status") == "unseen":
        return _replay_unseen(case, res, df, dm, names, base, variant, style), 0
    # evaluated: new data = rows of the training frame
    sel = [s - 1 for s in res["sel"]]
    new = df.iloc[sel].reset_index(drop=True)
    for part, want in (("common", res["common"]), ("group", res["group"])):
        mat = getattr(dm, part)
        if mat is None:
            continue
        try:
            got = design.to_int_matrix(mat.evaluate_new_data(new).design_matrix)
        except Exception as e:  # pylint: disable=broad-except
            out.append((["C06"], {"clause": "exception_on_rows_of_training_data", "part": part, "exc": type(e).__name__}, dict(base, sel=res["sel"], error=str(e)[:200])))
            continue
        if got != want:
            out.append((["C06"], {"clause": "new_data_rows_differ_from_training_rows", "part": part}, dict(base, sel=res["sel"], got=got, want=want)))
    return out, 0


def _replay_unseen(case, res, df, dm, names, base, variant, style):
    """New data with unseen levels under a mode (C10)."""
    import warnings

    from formulae import config

    out = []
    nf = res["newframe"]
    names2 = list(names) + ["zz"] * 10
    names2[8] = "NEWLEVEL"  # code 9
    design.LEVEL_POOLS.append(names2)
    try:
        new = design.materialize(nf, len(design.LEVEL_POOLS) - 1, "str")
    finally:
        design.LEVEL_POOLS.pop()
    mode = res["mode"]
    base = dict(base, mode=mode, sel=res["sel"], unseen_in=res["vs"], newframe={k: c["v"] for k, c in nf["cols"].items()})
    old = config["EVAL_UNSEEN_CATEGORIES"]
    config["EVAL_UNSEEN_CATEGORIES"] = mode
    try:
        for part in ("common", "group"):
            mat = getattr(dm, part)
            want = res[part]
            if mat is None:
                continue
            with warnings.catch_warnings(record=True) as wlist:
                warnings.simplefilter("always")
                try:
                    got = mat.evaluate_new_data(new)
                    st = "ok"
                except Exception as e:  # pylint: disable=broad-except
                    got, st = e, "raise"
            warned = any("not present in the original data set" in str(w.message) for w in wlist)
            if want["status"] == "raise":
                if st != "raise":
                    out.append((["C10"], {"clause": "unseen_level_not_refused_in_error_mode", "part": part}, base))
                elif not isinstance(got, ValueError):
                    out.append((["C10"], {"clause": "wrong_exception_for_unseen_level", "part": part, "exc": type(got).__name__}, base))
                continue
            if st == "raise":
                out.append((["C10"], {"clause": "exception_in_" + mode + "_mode", "part": part, "exc": type(got).__name__}, dict(base, error=str(got)[:200])))
                continue
            g = design.to_int_matrix(got.design_matrix)
            if g != want[part]:
                out.append((["C10"], {"clause": "cells_differ_from_unseen_level_rule", "part": part, "mode": mode}, dict(base, got=g, want=want[part])))
            if part == "group":
                gs = [[s.start, s.stop] for s in got.slices.values()]
                if gs != [list(x) for x in want["slices"]]:
                    out.append((["C10", "C17"], {"clause": "slices_differ", "part": part}, dict(base, got=gs, want=want["slices"])))
                fn = [":".join(f) for f in want["factors_new"]]
                if list(got.factors_with_new_levels) != fn:
                    out.append((["C10"], {"clause": "factors_with_new_levels_differ"}, dict(base, got=list(got.factors_with_new_levels), want=fn)))
            # warning mode warns iff something is unseen in this part; silent / no unseen: no formulae warning
            any_unseen = bool(res["vs"]) and _part_sees(case, part, res["vs"])
            if mode == "warning" and any_unseen and not warned:
                out.append((["C10"], {"clause": "no_warning_in_warning_mode", "part": part}, base))
            if (mode == "silent" or not any_unseen) and warned:
                out.append((["C10"], {"clause": "warning_although_silent_or_nothing_unseen", "part": part, "mode": mode}, base))
    finally:
        config["EVAL_UNSEEN_CATEGORIES"] = old
    return out


FORM_VARS = {}


def _part_sees(case, part, vs):
    """Does the evaluated part use one of the variables that hold an unseen level?"""
    txt = case["txt"]
    rhs = txt.split("~", 1)[1] if "~" in txt else txt
    import re

    groups = re.findall(r"\(([^()]*\|[^()]*)\)", rhs)
    common_txt = re.sub(r"\([^()]*\|[^()]*\)", "", rhs)
    src = " ".join(groups) if part == "group" else common_txt
    toks = set(re.findall(r"[a-z]+", src))
    return any(v in toks for v in vs)


def run(rep, prop, seed, n=3, nf=3, ng=2, xfull=False, naops=False, permops=False, maxsel=0, unseen=False, subset=None, sample=None, timeout=3000):
    tmp = tlc.scratch_dir("fv_dmc_")
    try:
        out = os.path.join(tmp, "cases.ndjson")
        cfg = common.write_cfg(
            os.path.join(tmp, "Design_MC.cfg"),
            constants={"N": n, "NF": nf, "NG": ng, "XFull": xfull, "DoExport": True, "NAOps": naops, "PermOps": permops, "MaxSel": maxsel, "UnseenOps": unseen, "SubsetOps": (maxsel > 0 and not unseen) if subset is None else subset},
            invariants=INVARIANTS,
            properties=PROPERTIES,
        )
        res = tlc.run_tlc("Design_MC", cfg=cfg, env={"FV_OUT": out}, workers=16, heap="12g", timeout=timeout, allow_violation=True)
        rep.add_tlc(f"Design_MC N={n} NF={nf} NG={ng} na={naops} perm={permops} sel={maxsel} unseen={unseen}", res)
        if res.violated:
            rep.violation({"clause": "spec_level:" + ",".join(res.violated), "site": "Design.tla"}, {"tlc_tail": res.out[-3000:]})
            return
        # each check replays only the cases that serve its property; the export is read as a stream and, when a
        # sample size is given, sampled on the fly (the export of a thorough run is several gigabytes)
        want_phase = {"C06": ("evaluated",), "C10": ("evaluated",), "C08": ("built",), "C09": ("built",)}.get(prop, ("built",))
        want_opn = {"C08": (0, 1), "C09": (2,), "C06": (0,)}.get(prop, (0,))
        cases = tlc.read_export(out, keep=lambda c: c["phase"] in want_phase and c["opn"] in want_opn, sample=sample, rng=random.Random(seed))
        rep.count("s2c_cases_enumerated", tlc.read_export.total)
        if sample and tlc.read_export.total > sample:
            rep.notes["s2c_replay_sampled"] = True
        results = common.pool_map(_replay, [(c, seed) for c in cases])
        for c, (problems, ood) in zip(cases, results):
            rep.cov["evaluations"] += 1
            rep.cov["out_of_domain"] += ood
            if c["d"].get("status") == "ok" and (len(c["d"]["common_labels"]) + len(c["d"]["group_labels"])) >= 3:
                rep.nontrivial_key(f"D:{c['form']}:{c['frame']['cols']['f']['v']}:{c['frame']['cols']['g']['v']}:{c['frame']['cols']['x']['v']}:{c['policy']}:{c['opn']}")
            for props, sig, case in problems:
                if prop in props:
                    rep.violation(sig, case)
                else:
                    rep.count("observations_for_other_properties")
        rep.count("s2c_cases", len(cases))
        for c in cases[:: max(1, len(cases) // 2)][:2]:
            rep.sample({"kind": "S->C design case", "formula": c["txt"], "frame": {k: v["v"] for k, v in c["frame"]["cols"].items()}, "policy": c["policy"], "expected_common_labels": c["d"].get("common_labels"), "expected_common": c["d"].get("common")})
    finally:
        shutil.rmtree(tmp, ignore_errors=True)
