"""Random abstract frames and formulas for the trace (C->S) direction, and the recorder that
turns one design_matrices call into a `build` event of spec/Design_Trace.tla."""
import math
import warnings

import numpy as np
import pandas as pd

from fv import design

NA = design.NA

CAT_NAMES = {
    "f": ["a", "b", "c", "d", "e", "f", "g", "h", "i", "j", "k", "l"],
    "g": ["G1", "G10", "G2", "G3"],
    "h": ["A x", "B-y", "b.1", "c"],
    "o": ["hi", "lo", "mid", "top"],
    "u2": ["p", "q"],
}


class World:
    """A concrete DataFrame together with its abstract frame and the level-name tables."""

    def __init__(self):
        self.n = 0
        self.cols = {}  # abstract columns (incl. derived ones)
        self.names = {}  # cat column -> list of level names by code
        self.df = None
        self.scale = {}  # numeric column -> factor by which its abstract (integer) cells are scaled
        self.sum_cols = {}  # sum-coded derived factor -> code of its omitted (last) level
        self.namespace = {}  # names the formulas take from the caller (explicit levels)


def gen_world(rng, nmin=3, nmax=20, na_rate=0.0, na_cols=(), ordered_prob=0.5, force_levels=True, distinct=0, quarters=False):
    w = World()
    n = w.n = rng.randint(nmin, nmax)
    if nmax >= 10 and rng.random() < 0.04:
        n = w.n = rng.randint(45, 75)   # now and then a frame with many rows (more than a few dozen)
    data = {}

    def cat(name, nlev, ordered=False):
        names = CAT_NAMES[name][:nlev]
        codes = [rng.randint(1, nlev) for _ in range(n)]
        if force_levels and n >= nlev:
            for k, pos in enumerate(rng.sample(range(n), nlev)):
                codes[pos] = k + 1
        decl = []
        vals = [names[c - 1] for c in codes]
        if ordered:
            decl = list(range(1, nlev + 1))
            rng.shuffle(decl)
            data[name] = pd.Categorical(vals, categories=[names[c - 1] for c in decl], ordered=True)
        else:
            style = rng.choice(["obj", "cat", "string"])
            if style == "cat":
                present = sorted(set(vals), reverse=True)
                data[name] = pd.Categorical(vals, categories=present, ordered=False)
            elif style == "string":
                data[name] = pd.array(vals, dtype="string")   # pandas' own string dtype
            else:
                data[name] = np.array(vals, dtype=object)
        w.cols[name] = {"kind": "cat", "v": codes, "decl": decl}
        w.names[name] = names

    def num(name, lo, hi):
        v = [rng.randint(lo, hi) for _ in range(n)]
        if distinct and name in ("x", "z") and n >= distinct:
            # at least `distinct` different values (poly / bs are degenerate otherwise)
            vals = rng.sample(range(lo, hi + 1), distinct)
            for pos, val in zip(rng.sample(range(n), distinct), vals):
                v[pos] = val
        if quarters and name == "x":
            # non-integer data: x = v / 4 (exact binary fractions); the abstract cells stay the integers v
            data[name] = np.array(v, dtype=float) / 4.0
            w.scale[name] = 4
        else:
            # how the integers are stored must not matter: int64, float64, pandas' nullable Int64
            st = rng.choice(["int64", "int64", "float", "Int64"]) if name in ("w", "u1", "z") else "int64"
            if st == "Int64" and name == "z":
                st = "float"
            data[name] = pd.array(v, dtype="Int64") if st == "Int64" else np.array(v, dtype=np.int64 if st == "int64" else float)
        w.cols[name] = {"kind": "num", "v": v, "decl": []}

    # now and then a factor with many levels (two-digit column indices, more levels than rows of some of them)
    cat("f", rng.choice([2, 3, 3, 4, 4, 4, 5, 7, 11]) if n >= 6 else rng.randint(2, 4))
    cat("g", rng.randint(2, 3))
    cat("h", rng.randint(2, 4))
    cat("o", rng.randint(2, 4), ordered=rng.random() < ordered_prob)
    cat("u2", 2)
    # an ordered categorical one of whose declared categories never occurs (a frame left over after filtering);
    # it has no abstract column: only the row-relation checks (C06, C08) use it, through ou, C(ou), S(ou), T(ou)
    ou_decl = ["lo", "mid", "hi", "top"]
    rng.shuffle(ou_decl)
    ou_used = ou_decl[:]
    ou_used.remove(rng.choice(ou_decl))
    ou_vals = [rng.choice(ou_used) for _ in range(n)]
    for k, pos in enumerate(rng.sample(range(n), min(n, len(ou_used)))):
        ou_vals[pos] = ou_used[k]
    data["ou"] = pd.Categorical(ou_vals, categories=ou_decl, ordered=True)
    num("x", -3, 6)
    num("z", 1, 5)
    # a column whose training mean is exactly zero (memoised parameters that are 0 must stay memoised)
    m = n // 2
    half = rng.sample(range(1, 5), min(4, m)) + [rng.randint(1, 4) for _ in range(max(0, m - 4))]   # distinct as far as possible
    xc = half + [-v for v in half] + ([0] if n % 2 else [])
    rng.shuffle(xc)
    data["xc"] = np.array(xc, dtype=np.int64)
    w.cols["xc"] = {"kind": "num", "v": xc, "decl": []}
    num("w", 0, 3)
    num("u1", 0, 9)
    num("b q", 1, 4)   # a column whose name is not an identifier: written `b q` in formulas
    # integer-coded factor used through C(k)
    kvals = rng.sample([1, 2, 3, 10, 20, 100], rng.choice([2, 2, 3, 3, 5]))
    if n >= 10 and rng.random() < 0.15:
        kvals = rng.sample(range(1, 14), rng.randint(9, min(12, n)))   # ten or more integer levels: numeric, not text, order
    kv = [rng.choice(kvals) for _ in range(n)]
    if n >= len(kvals):
        for k, pos in enumerate(rng.sample(range(n), len(kvals))):
            kv[pos] = kvals[k]
    data["k"] = np.array(kv, dtype=np.int64)
    w.cols["k"] = {"kind": "num", "v": kv, "decl": []}
    ks = sorted(set(kv))
    w.cols["C(k)"] = {"kind": "cat", "v": [ks.index(v) + 1 for v in kv], "decl": []}
    w.names["C(k)"] = [str(v) for v in ks]
    # the same integers stored as an (unordered) pandas categorical: levels in numeric order
    data["kcat"] = pd.Categorical(kv)
    w.cols["kcat"] = {"kind": "cat", "v": [ks.index(v) + 1 for v in kv], "decl": []}
    w.names["kcat"] = [str(v) for v in ks]
    # k itself used as a grouping variable, (e | k): its groups are the values of k in numeric order
    w.cols["k#grp"] = {"kind": "cat", "v": [ks.index(v) + 1 for v in kv], "decl": []}
    w.names["k#grp"] = [str(v) for v in ks]
    # explicit level order taken from the caller's namespace (KL = the values of k, descending)
    w.cols["C(k, levels=KL)"] = {"kind": "cat", "v": [ks.index(v) + 1 for v in kv], "decl": list(range(len(ks), 0, -1))}
    w.names["C(k, levels=KL)"] = [str(v) for v in ks]
    w.namespace = {"KL": sorted(ks, reverse=True)}
    # C() of an ordered categorical: the declared order is respected (not the sorted one)
    w.cols["C(o)"] = {"kind": "cat", "v": list(w.cols["o"]["v"]), "decl": list(w.cols["o"]["decl"])}
    w.names["C(o)"] = list(w.names["o"])
    # a call that returns plain strings (not a CategoricalBox): levels must still be sorted
    w.cols["I(h)"] = {"kind": "cat", "v": list(w.cols["h"]["v"]), "decl": []}
    w.names["I(h)"] = list(w.names["h"])
    # sum-coded spellings of g and h (omitted level = the last one)
    for dname, src in (("S(h)", "h"), ("C(g, Sum)", "g")):
        w.cols[dname] = {"kind": "cat", "v": list(w.cols[src]["v"]), "decl": []}
        w.names[dname] = list(w.names[src])
        w.sum_cols[dname] = max(w.cols[src]["v"])
    # response: distinct integers
    yv = list(range(10, 10 + 3 * n, 3))
    rng.shuffle(yv)
    data["y"] = np.array(yv, dtype=np.int64)
    w.cols["y"] = {"kind": "num", "v": yv, "decl": []}
    # derived numeric call columns
    xv, zv = w.cols["x"]["v"], w.cols["z"]["v"]
    w.cols["I(x * 2)"] = {"kind": "num", "v": [2 * v for v in xv], "decl": []}
    w.cols["np.abs(x)"] = {"kind": "num", "v": [abs(v) for v in xv], "decl": []}
    w.cols["I(z + w)"] = {"kind": "num", "v": [a + b for a, b in zip(zv, w.cols["w"]["v"])], "decl": []}
    # a user function with a keyword argument and nested calls: fk(a, k=b) = a + 2 * b
    wv, bq = w.cols["w"]["v"], w.cols["b q"]["v"]
    w.cols["fk(z, k=w)"] = {"kind": "num", "v": [a + 2 * b for a, b in zip(zv, wv)], "decl": []}
    w.cols["fk(np.abs(z), k=I(`b q`))"] = {"kind": "num", "v": [abs(a) + 2 * b for a, b in zip(zv, bq)], "decl": []}
    w.namespace["fk"] = _fk
    w.cols["`b q`"] = {"kind": "num", "v": list(bq), "decl": []}   # the component as it is written
    if quarters:
        w.scale["I(x * 2)"] = 4
        w.scale["np.abs(x)"] = 4
    df = pd.DataFrame(data)
    # missing values
    if na_rate > 0:
        for c in na_cols:
            for r in range(n):
                if rng.random() < na_rate:
                    _set_na(w, df, c, r)
    w.df = df
    return w


def _fk(a, k=0):
    return a + 2 * k


DERIVED = {"C(o)": ["o"], "k#grp": ["k"], "fk(z, k=w)": ["z", "w"], "fk(np.abs(z), k=I(`b q`))": ["z", "b q"], "`b q`": ["b q"], "C(k)": ["k"], "C(k, levels=KL)": ["k"], "I(h)": ["h"], "S(h)": ["h"], "C(g, Sum)": ["g"], "I(x * 2)": ["x"], "np.abs(x)": ["x"], "I(z + w)": ["z", "w"]}


def _set_na(w, df, c, r):
    col = w.cols[c]
    if col["kind"] == "cat":
        col["v"][r] = 0
        if isinstance(df[c].dtype, pd.CategoricalDtype):
            s = df[c].copy()
            s.iloc[r] = np.nan
            df[c] = s
        else:
            s = df[c].astype(object)
            s.iloc[r] = None
            df[c] = s
    else:
        col["v"][r] = NA
        if str(df[c].dtype) == "Int64":
            # pandas' nullable integers hold their own missing-value marker
            sr = df[c].copy()
            sr.iloc[r] = pd.NA
            df[c] = sr
        else:
            df[c] = df[c].astype(float)
            df.iloc[r, df.columns.get_loc(c)] = np.nan
    for dname, srcs in DERIVED.items():
        if c in srcs:
            w.cols[dname]["v"][r] = 0 if w.cols[dname]["kind"] == "cat" else NA


CAT_COMPS = ["f", "g", "h", "o", "C(k)", "I(h)", "S(h)", "C(g, Sum)", "C(k, levels=KL)", "C(o)"]
SAME_FACTOR = [{"h", "I(h)", "S(h)"}, {"g", "C(g, Sum)"}, {"C(k)", "C(k, levels=KL)"}, {"o", "C(o)"}]
NUM_COMPS = ["x", "z", "I(x * 2)", "np.abs(x)", "I(z + w)", "`b q`", "fk(z, k=w)", "fk(np.abs(z), k=I(`b q`))"]
Z_DERIVED = ("z", "I(z + w)", "fk(z, k=w)", "fk(np.abs(z), k=I(`b q`))")


def comp_vars(c):
    return DERIVED.get(c, [c])


def gen_formula(rng, groups=True, max_terms=4, resp="y", cat_comps=None, num_comps=None, hier=0.8):
    """Returns (text, used column names (abstract, incl. derived), structure)."""
    cat_comps = cat_comps or CAT_COMPS
    num_comps = num_comps or NUM_COMPS
    terms = []
    spelled = []  # (operator spelling, index of its first term)
    nterms = rng.randint(1, max_terms)
    for _ in range(nterms):
        arity = rng.choice([1, 1, 1, 2, 2, 3])
        ncat = rng.randint(0, min(arity, 2))
        comps = rng.sample(cat_comps, ncat) + rng.sample(num_comps, min(arity - ncat, 2))
        for grp in SAME_FACTOR:  # different spellings of one factor do not go into one term
            hit = [c for c in comps if c in grp]
            for c in hit[1:]:
                comps.remove(c)
        # x-derived numerics are dependent: keep at most one of them per term
        xs = [c for c in comps if c in ("x", "I(x * 2)", "np.abs(x)")]
        for c in xs[1:]:
            comps.remove(c)
        zs = [c for c in comps if c in Z_DERIVED]
        for c in zs[1:]:
            comps.remove(c)
        rng.shuffle(comps)
        if not comps:
            continue
        if len(comps) == 2 and rng.random() < 0.3 and not any(t in terms for t in ([comps[0]], [comps[1]], comps, comps[::-1])):
            # the same terms spelled with an operator: several terms are built from the same components
            a, b = comps
            if rng.random() < 0.5:
                spelled.append((f"{a}*{b}", len(terms), 3))
                terms += [[a], [b], [a, b]]
            else:
                spelled.append((f"{a}/{b}", len(terms), 2))
                terms += [[a], [a, b]]
            continue
        if len(comps) > 1 and rng.random() < hier:
            for c in comps:
                if [c] not in terms:
                    terms.append([c])
            if len(comps) == 3:
                for a in range(3):
                    sub = [comps[b] for b in range(3) if b != a]
                    if sub not in terms and [sub[1], sub[0]] not in terms:
                        terms.append(sub)
        if comps not in terms and not any(sorted(t) == sorted(comps) for t in terms):
            terms.append(comps)
    icpt = rng.random() < 0.75
    parts = [] if icpt else ["0"]
    k = 0
    starts = {i: (txt, width) for txt, i, width in spelled}
    while k < len(terms):
        if k in starts:
            parts.append(starts[k][0])
            k += starts[k][1]
        else:
            parts.append(":".join(terms[k]))
            k += 1
    gterms = []
    if groups and rng.random() < 0.6:
        for _ in range(rng.choice([1, 1, 2, 2, 3])):
            fac = rng.choice([["g"], ["h"], ["f"], ["g", "h"], ["C(k)"], ["k"]])
            eff = rng.choice([[], ["x"], ["z"], ["f"], ["o"], ["x", "f"], ["I(x * 2)"]])
            eff = [e for e in eff if e not in fac]
            noint = bool(eff) and rng.random() < 0.35
            txt = "(" + ("0 + " if noint else "") + (":".join(eff) if eff else "1") + " | " + ":".join(fac) + ")"
            if len(fac) == 1 and fac[0] in ("g", "h") and rng.random() < 0.2:
                # nested and summed grouping expressions: (e | g/h) = (e|g) + (e|g:h);  (e | g + h) = (e|g) + (e|h)
                other = "h" if fac[0] == "g" else "g"
                if other not in eff:
                    form = rng.choice(["/", " + "])
                    txt = "(" + ("0 + " if noint else "") + (":".join(eff) if eff else "1") + " | " + fac[0] + form + other + ")"
                    gterms.append({"e": eff, "g": [fac[0], other] if form == "/" else [other], "noint": noint})
            if eff and len(fac) == 1 and rng.random() < 0.25 and "/" not in txt and " + " not in txt.split("|")[1]:
                # the same effect under two grouping factors, with a group intercept for only one of them
                fac2 = rng.choice([v for v in ("g", "h", "f") if v not in fac and v not in eff])
                txt = "(0 + " + ":".join(eff) + " | " + fac[0] + " + " + fac2 + ") + (1 | " + fac[0] + ")"
                gterms.append({"e": eff, "g": [fac2], "noint": True})
                noint = False
            if txt not in parts:
                parts.append(txt)
                gterms.append({"e": eff, "g": fac, "noint": noint})
    if not parts or parts == ["0"]:
        parts.append("x")
        terms.append(["x"])
    text = (resp + " ~ " if resp else "") + " + ".join(parts)
    if rng.random() < 0.15:
        # a term that is added and removed again: its variable is not used by the formula
        text = text.replace(" ~ ", " ~ u1 + ", 1) + " - u1" if " ~ " in text else "u1 + " + text + " - u1"
    used = set()
    for t in terms:
        used.update(t)
    for g in gterms:
        used.update(g["e"])
        used.update(g["g"])
    base_used = set()
    for c in used:
        base_used.update(comp_vars(c))
        base_used.add(c)
    if resp:
        base_used.add(resp)
    return text, sorted(base_used), {"icpt": icpt, "terms": terms, "groups": gterms, "resp": resp}


# ------------------------------------------------------------------ recording


def parse_piece(s, w):
    """'name[level]' / 'name' -> [abstract column, level code]."""
    if s == "b q":
        return ["b q", 0]
    # formulae writes back-quoted names without the back-quotes in term names
    for full in w.cols:
        if "`" in full and full.replace("`", "") == s:
            s = full
            break
    if s in w.cols and w.cols[s]["kind"] == "num":
        return [s, 0]
    if s.startswith("k[") and "k#grp" in w.names:
        s = "k#grp" + s[1:]   # a numeric grouping variable: its groups are the values of k
    best = None
    for name in w.names:
        if s.startswith(name + "[") and s.endswith("]"):
            if best is None or len(name) > len(best):
                best = name
    if best is None:
        raise ValueError(f"cannot parse label piece {s!r}")
    lvl = s[len(best) + 1 : -1]
    if lvl not in w.names[best] and lvl.endswith(".0") and lvl[:-2] in w.names[best]:
        lvl = lvl[:-2]
    if best in w.sum_cols:
        if lvl == "mean":
            return [best, 0, "sum", w.sum_cols[best]]
        return [best, w.names[best].index(lvl) + 1, "sum", w.sum_cols[best]]
    if lvl not in w.names[best] and lvl.endswith(".0") and lvl[:-2] in w.names[best]:
        lvl = lvl[:-2]   # an integer column that held a missing value is stored as float: level 3 is printed '3.0'
    if lvl not in w.names[best]:
        raise ValueError(f"unknown level {lvl!r} in {s!r}")
    return [best, w.names[best].index(lvl) + 1]


def split_top(s, sep):
    """Split on sep outside brackets and parentheses."""
    out, depth, cur = [], 0, []
    for ch in s:
        if ch in "([":
            depth += 1
        elif ch in ")]":
            depth -= 1
        if ch == sep and depth == 0:
            out.append("".join(cur))
            cur = []
        else:
            cur.append(ch)
    out.append("".join(cur))
    return out


def parse_label(s, w):
    if s == "Intercept":
        return []
    return [parse_piece(p, w) for p in split_top(s, ":")]


def parse_group_label(s, w):
    eff, grp = split_top(s, "|")
    e = [] if eff == "1" else [parse_piece(p, w) for p in split_top(eff, ":")]
    return [e, [parse_piece(p, w) for p in split_top(grp, ":")]]


EMPTY = {"labels": [], "data": [], "slices": [], "tcomps": []}


def _label_factor(label, w, group=False):
    pieces = (label[0] if group else label)
    f = 1
    for pc in pieces:
        if len(pc) == 2 and pc[1] == 0:
            f *= w.scale.get(pc[0], 1)
    return f


def scaled_int_matrix(dmx, labels, w, group=False):
    """Cells as integers: a column whose label contains numeric pieces stored in scaled form is
    multiplied by the product of their scales (exact: the scales are powers of two)."""
    a = np.asarray(dmx, dtype=float)
    if a.ndim == 1:
        a = a[:, None]
    if w.scale and a.shape[1] == len(labels):
        a = a * np.array([_label_factor(l, w, group) for l in labels], dtype=float)[None, :]
    return design.to_int_matrix(a)


def matrix_event(mat, w, kind):
    """CommonEffectsMatrix / GroupEffectsMatrix / ResponseMatrix -> event part + view agreement."""
    if mat is None:
        return dict(EMPTY), True
    dmx = np.asarray(mat.design_matrix)
    data = None
    views = True
    if kind == "resp":
        labs = mat.term.term.labels or [mat.name]
        labels = [parse_label(l, w) for l in labs]
        data = scaled_int_matrix(dmx, labels, w)
        try:
            dfv = mat.as_dataframe()
            views = views and list(dfv.columns) == list(labs) and np.array_equal(np.asarray(dfv, dtype=float), np.asarray(dmx, dtype=float).reshape(len(dfv), -1), equal_nan=True)
        except Exception:  # pylint: disable=broad-except
            views = False
        views = views and np.array_equal(np.asarray(np.asarray(mat), dtype=float), np.asarray(dmx, dtype=float), equal_nan=True)
        return {"labels": labels, "data": data, "slices": [[0, len(labels)]], "tcomps": [[mat.name]]}, views
    labs = []
    for term in mat.terms.values():
        labs.extend(term.labels)
    if kind == "common":
        labels = [parse_label(l, w) for l in labs]
    else:
        labels = [parse_group_label(l, w) for l in labs]
    data = scaled_int_matrix(dmx, labels, w, group=(kind != "common"))
    slices = [[s.start, s.stop] for s in mat.slices.values()]
    tcomps = []
    for name, term in mat.terms.items():
        if kind == "common":
            tcomps.append([str(c.name) for c in getattr(term, "components", [])])
        else:
            tcomps.append([str(c.name) for c in term.factor.components])
    # views
    try:
        if kind == "common":
            dfv = mat.as_dataframe()
            views = views and list(dfv.columns) == labs
            views = views and np.array_equal(np.asarray(dfv, dtype=float), np.asarray(dmx, dtype=float), equal_nan=True)
        views = views and np.array_equal(np.asarray(np.asarray(mat), dtype=float), np.asarray(dmx, dtype=float), equal_nan=True)
        for name, s in mat.slices.items():
            views = views and np.array_equal(np.asarray(mat[name], dtype=float), np.asarray(dmx[:, s], dtype=float), equal_nan=True)
        try:
            mat["__no_such_term__"]
            views = False
        except ValueError:
            pass
        txt = str(mat)
        views = views and (str(dmx.shape) in txt) and repr(mat) == txt
        views = views and list(mat.slices.keys()) == list(mat.terms.keys())
    except Exception:  # pylint: disable=broad-except
        views = False
    return {"labels": labels, "data": data, "slices": slices, "tcomps": tcomps}, views


def record_build(idx, text, used, w, policy="drop", **kw):
    """Run design_matrices and return the build event (or an event with status = exception)."""
    between = kw.pop("between", None)   # called with the built design before it is projected (a history step)
    if "extra_namespace" not in kw and getattr(w, "namespace", None):
        kw["extra_namespace"] = dict(w.namespace)
    # 'drop' is the default policy: every other time it is left out
    st, dm = design.build(text, w.df, na_action=(None if policy == "drop" and idx % 2 == 0 else policy), **kw)
    if st == "ok" and between is not None:
        between(dm)
    ev = {
        "id": idx,
        "kind": "build",
        "frame": {"n": w.n, "cols": w.cols},
        "used": used,
        "policy": policy,
        "status": "ok",
        "common": dict(EMPTY),
        "group": dict(EMPTY),
        "resp": dict(EMPTY),
        "views": True,
        "resp_expected": "~" in text,
    }
    if st != "ok":
        ev["status"] = type(dm).__name__
        if isinstance(dm, ValueError) and "incomplete rows" in str(dm):
            ev["status"] = "ValueError:incomplete_rows"   # the refusal of na_action='error'
        return ev, dm
    views = True
    try:
        for part, attr in (("common", "common"), ("group", "group"), ("resp", "response")):
            ev[part], v = matrix_event(getattr(dm, attr), w, part)
            views = views and v
        r, c, g = dm
        views = views and r is dm.response and c is dm.common and g is dm.group
        txt = str(dm)
        for m in (dm.response, dm.common, dm.group):
            if m is not None:
                views = views and str(np.asarray(m.design_matrix).shape) in txt
    except Exception as e:  # pylint: disable=broad-except
        ev["status"] = "projection:" + type(e).__name__ + ":" + str(e)[:80]
        return ev, dm
    ev["views"] = bool(views)
    return ev, dm


def record_newdata(idx, text, used, w, dm, rng):
    """Evaluate the built design on a frame made of all rows of the training frame, reordered and
    partly repeated, and record the result as a build event over that frame (no response part):
    the labels of the training design must describe the new matrices cell by cell as well."""
    import copy

    perm = list(range(w.n)) + [rng.randrange(w.n) for _ in range(rng.randint(0, 3))]
    rng.shuffle(perm)
    w2 = World()
    w2.n = len(perm)
    w2.names, w2.scale, w2.sum_cols, w2.namespace = w.names, w.scale, w.sum_cols, w.namespace
    w2.cols = {k: dict(c, v=[c["v"][i] for i in perm]) for k, c in w.cols.items()}
    w2.df = w.df.iloc[perm].reset_index(drop=True) if rng.random() < 0.5 else w.df.iloc[perm]
    # a factor of the new frame may come with a dtype of its own: an ordered categorical built from these rows
    w2.df = w2.df.copy()
    for col in ("f", "g", "h"):
        if rng.random() < 0.25:
            vals = [str(v) for v in w2.df[col]]
            cats = sorted(set(vals))
            rng.shuffle(cats)
            w2.df[col] = pd.Categorical(vals, categories=cats, ordered=True)
    ev = {"id": idx, "kind": "build", "frame": {"n": w2.n, "cols": w2.cols}, "used": used, "policy": "drop", "status": "ok",
          "common": dict(EMPTY), "group": dict(EMPTY), "resp": dict(EMPTY), "views": True, "resp_expected": False, "tag": "new_data"}
    try:
        common = dm.common.evaluate_new_data(w2.df) if dm.common is not None else None
        group = dm.group.evaluate_new_data(w2.df) if dm.group is not None else None
    except Exception as e:  # pylint: disable=broad-except
        ev["status"] = type(e).__name__
        return ev, e
    try:
        views = True
        for part, mat in (("common", common), ("group", group)):
            ev[part], v = matrix_event(mat, w2, part)
            views = views and v
        ev["views"] = bool(views)
    except Exception as e:  # pylint: disable=broad-except
        ev["status"] = "projection:" + type(e).__name__ + ":" + str(e)[:80]
    return ev, None
