"""Exact ranks.  rank_mod_p: Gaussian elimination over GF(p) on integer matrices (a prime can only
lower a rank, so 'rank deficient' verdicts are re-confirmed with exact rational elimination);
rank_exact: fraction-free (Bareiss) elimination with Python integers."""
import numpy as np

P = 2147483629  # < 2^31, so products fit int64


def rank_mod_p(a, p=P):
    a = np.array(a, dtype=np.int64) % p
    if a.size == 0:
        return 0
    rows, cols = a.shape
    r = 0
    for c in range(cols):
        if r >= rows:
            break
        nz = np.nonzero(a[r:, c])[0]
        if nz.size == 0:
            continue
        piv = r + nz[0]
        if piv != r:
            a[[r, piv]] = a[[piv, r]]
        inv = pow(int(a[r, c]), p - 2, p)
        a[r] = (a[r] * inv) % p
        f = a[r + 1 :, c].copy()
        idx = np.nonzero(f)[0]
        if idx.size:
            a[r + 1 + idx] = (a[r + 1 + idx] - (f[idx, None] * a[r][None, :]) % p) % p
        r += 1
    return r


def rank_exact(a):
    m = [[int(x) for x in row] for row in np.asarray(a).tolist()]
    if not m:
        return 0
    rows, cols = len(m), len(m[0])
    r = 0
    prev = 1
    for c in range(cols):
        piv = None
        for i in range(r, rows):
            if m[i][c] != 0:
                piv = i
                break
        if piv is None:
            continue
        m[r], m[piv] = m[piv], m[r]
        for i in range(r + 1, rows):
            for j in range(c + 1, cols):
                m[i][j] = (m[i][j] * m[r][c] - m[i][c] * m[r][j]) // prev
            m[i][c] = 0
        prev = m[r][c]
        r += 1
        if r == rows:
            break
    return r


def rank_int(a):
    """Exact rank of an integer matrix: mod-p result, confirmed exactly when it signals a deficiency."""
    a = np.asarray(a)
    if a.ndim == 1:
        a = a[:, None]
    full = min(a.shape)
    r = rank_mod_p(a)
    if r < full:
        # remove the only false-alarm path: re-check with a second prime, then exactly if they disagree
        r2 = rank_mod_p(a, 2147483587)
        if r2 != r:
            return rank_exact(a)
    return r


def is_int_matrix(a, tol=1e-9):
    a = np.asarray(a, dtype=float)
    return bool(np.all(np.abs(a - np.round(a)) < tol))


def rank_float(a, rel=1e-8):
    """Numerical rank with a gap test; returns (rank, clear) where clear says whether the gap
    between the smallest kept and the largest dropped singular value is unambiguous."""
    a = np.asarray(a, dtype=float)
    if a.size == 0:
        return 0, True
    # scale columns to unit norm so that badly scaled columns do not masquerade as dependencies
    norms = np.linalg.norm(a, axis=0)
    norms[norms == 0] = 1.0
    s = np.linalg.svd(a / norms, compute_uv=False)
    if s[0] == 0:
        return 0, True
    r = int(np.sum(s > rel * s[0]))
    if r == len(s):
        clear = s[-1] > 1e-6 * s[0]
    else:
        clear = s[r] < 1e-11 * s[0] and s[r - 1] > 1e-6 * s[0]
    return r, bool(clear)
