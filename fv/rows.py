"""`rows` events: a relation b[i] = a[map[i]] between two recorded matrices, judged by TLC.
Floats are interned to value ids (equality up to 1e-9 relative); ids support equality only."""
import random
import warnings

import numpy as np
import pandas as pd

from fv import design

RICH_NUM = ["x", "z", "binary(f, 'a')", "B(g)", "center(x)", "scale(z)", "bs(x, df=4)", "poly(z, 2)", "np.log(z)", "I(x ** 2)", "bs(z, df=3, degree=2)", "standardize(x)", "poly(x, 2, raw=True)", "scale(center(z))",
            "bs(x, knots=KN)", "bs(z, knots=KZ, degree=2, intercept=True)", "poly(xc, 2)", "center(xc)", "poly(xc, 3)",
            "ustd(x)", "ustd(center(z), shift=1)", "fkw(x, k=z)", "scale(fkw(x, k=z))", "fkw(z, k=np.abs(x))"]
RICH_CAT = ["f", "g", "h", "o", "C(k)", "C(f, Sum)", "T(h, 'B-y')", "S(g)", "C(k, levels=KL)", "I(f)", "ou", "C(ou)", "S(ou)", "T(ou)"]


def gen_text_formula(rng, groups=True, rich=True, max_terms=4):
    nums = RICH_NUM if rich else ["x", "z"]
    cats = RICH_CAT if rich else ["f", "g", "h", "o"]
    parts = []
    if rng.random() < 0.25:
        parts.append("0")
    for _ in range(rng.randint(1, max_terms)):
        r = rng.random()
        if r < 0.35:
            t = rng.choice(nums)
        elif r < 0.6:
            t = rng.choice(cats)
        elif r < 0.8:
            a, b = rng.choice(cats), rng.choice(nums)
            t = rng.choice([f"{a} + {b} + {a}:{b}", f"{a}*{b}", f"{a}/{b}", f"{b} + {a}:{b}"])
        else:
            a, b = rng.sample(cats[:5], 2)
            t = rng.choice([f"{a} + {b} + {a}:{b}", f"{a}/{b}", f"{a}*{b}", f"{a}:({b} + x)"])
        if t not in parts:
            parts.append(t)
    if rich and rng.random() < 0.12:
        # interactions of four and five components
        parts.append(rng.choice(["f:g:x:z", "h:x:z:I(x ** 2)", "f:x:g:scale(z):h", "o:f:center(x):z"]))
    if groups and rich and rng.random() < 0.08:
        parts.append(rng.choice(["(1 | g:h:f:o)", "(x | f:g:h:C(k))"]))
    if groups and rng.random() < 0.5:
        fac = rng.choice(["g", "h", "g:h", "C(k)", "k", "ou"])
        eff = rng.choice(["1", "x", "center(x)", "0 + f", "scale(z)", "f", "bs(x, df=3)", "0 + poly(z, 2)", "0 + bs(x, knots=KN)", "f:x"])
        parts.append(f"({eff} | {fac})")
        if rng.random() < 0.45:
            fac2 = rng.choice([v for v in ["g", "h", "f", "C(k)"] if v not in fac.split(":")])
            eff2 = rng.choice(["1", "x", "z", "0 + x", "scale(z)"])
            parts.append(f"({eff2} | {fac2})")
    if parts == ["0"]:
        parts.append("x")
    return "y ~ " + " + ".join(parts)


def _fkw(a, k=0):
    """A user function that takes a data column by keyword."""
    return np.asarray(a, dtype=float) - 2.0 * np.asarray(k, dtype=float)


class UserStd:
    """A user-defined stateful transform (the attribute is what register_stateful_transform sets):
    parameters are fitted on the first call and remembered."""

    __stateful_transform__ = True

    def __init__(self):
        self.m = None
        self.s = None

    def __call__(self, x, shift=0):
        if self.m is None:
            self.m = float(np.mean(x))
            self.s = float(np.std(x)) + 1.0
        return (x - self.m) / self.s + shift


def namespace(w, rng=None):
    """Names the rich formulas take from the caller: explicit levels and explicit spline knots
    (strictly inside the range of the training data)."""
    xs, zs = np.asarray(w.df["x"], dtype=float), np.asarray(w.df["z"], dtype=float)
    kl = sorted(set(w.cols["k"]["v"]))
    if rng is not None and rng.random() < 0.5:
        kl = kl[::-1]
    return {"fkw": _fkw, "ustd": UserStd, "KL": kl, "KN": [float(np.percentile(xs, 35)), float(np.percentile(xs, 70))], "KZ": [float(np.percentile(zs, 50))]}


def intern(mats, tol=1e-9):
    """List of float matrices -> list of id matrices with one shared value table."""
    vals = np.concatenate([np.asarray(m, dtype=float).ravel() for m in mats]) if mats else np.array([])
    finite = vals[np.isfinite(vals)]
    order = np.sort(finite)
    reps = []
    for v in order:
        if not reps or abs(v - reps[-1]) > tol * max(1.0, abs(v), abs(reps[-1])):
            reps.append(v)
    reps = np.array(reps)
    out = []
    for m in mats:
        a = np.asarray(m, dtype=float)
        if a.ndim == 1:
            a = a[:, None]
        ids = np.zeros(a.shape, dtype=int)
        for idx, v in np.ndenumerate(a):
            if np.isnan(v):
                ids[idx] = -1
            elif np.isinf(v):
                ids[idx] = -2 if v > 0 else -3
            else:
                k = int(np.searchsorted(reps, v))
                best = None
                for c in (k - 1, k):
                    if 0 <= c < len(reps) and abs(reps[c] - v) <= tol * max(1.0, abs(v), abs(reps[c])):
                        best = c
                        break
                ids[idx] = best if best is not None else k
        out.append(ids.tolist())
    return out


def stack(dm):
    """response | common | group of a DesignMatrices (or of evaluate_new_data results) as one float
    matrix plus the list of column labels."""
    mats, labels = [], []
    for part, m in (("r", dm.response), ("c", dm.common), ("g", dm.group)):
        if m is None:
            continue
        a = np.asarray(m.design_matrix, dtype=float)
        if a.ndim == 1:
            a = a[:, None]
        mats.append(a)
        if part == "r":
            labels += ["r:" + str(l) for l in (m.term.term.labels or [m.name])][: a.shape[1]] if a.shape[1] else []
            if len(labels) < a.shape[1]:
                labels += [f"r:{i}" for i in range(len(labels), a.shape[1])]
        elif part == "c":
            for t in m.terms.values():
                labels += ["c:" + l for l in t.labels]
        else:
            for t in m.terms.values():
                labels += ["g:" + l for l in t.labels]
    return (np.column_stack(mats) if mats else np.zeros((0, 0))), labels


def label_ids(la, lb):
    table = {}
    out = []
    for ls in (la, lb):
        out.append([table.setdefault(l, len(table) + 1) for l in ls])
    return out
