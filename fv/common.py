"""Small shared helpers: repo import, process pool, cfg generation, seeds."""
import json
import multiprocessing as mp
import os
import sys

ROOT = os.path.dirname(os.path.dirname(os.path.abspath(__file__)))
REPO = os.environ.get("FV_REPO", "/repo")


def use_repo():
    """Make `import formulae` resolve to /repo's working tree (it is installed editable in
    /venv, but be explicit so that a stale install can never be picked up)."""
    if REPO not in sys.path:
        sys.path.insert(0, REPO)
    os.environ.setdefault("FORMULAE_VERIF", "1")
    import logging

    logging.getLogger("formulae").setLevel(logging.ERROR)
    import formulae  # noqa: F401  pylint: disable=unused-import

    logging.getLogger("formulae").setLevel(logging.ERROR)
    assert os.path.realpath(os.path.dirname(formulae.__file__)).startswith(os.path.realpath(REPO)), formulae.__file__


def seed_from_env(default=20260926):
    try:
        return int(os.environ.get("VERIF_SEED", default))
    except ValueError:
        return default


def tla_set(items):
    return "{" + ", ".join(json.dumps(x) if isinstance(x, str) else str(x) for x in items) + "}"


def write_cfg(path, spec="Spec", constants=None, invariants=(), properties=(), constraint=None, post=None, view=None):
    lines = [f"SPECIFICATION {spec}", "CONSTANTS"]
    for k, v in (constants or {}).items():
        if isinstance(v, bool):
            v = "TRUE" if v else "FALSE"
        elif isinstance(v, (list, tuple, set)):
            v = tla_set(sorted(v) if isinstance(v, set) else v)
        elif isinstance(v, str) and not v.startswith("{"):
            v = json.dumps(v)
        lines.append(f"  {k} = {v}")
    for inv in invariants:
        lines.append(f"INVARIANT {inv}")
    for p in properties:
        lines.append(f"PROPERTY {p}")
    if constraint:
        lines.append(f"CONSTRAINT {constraint}")
    if view:
        lines.append(f"VIEW {view}")
    if post:
        lines.append(f"POSTCONDITION {post}")
    lines.append("CHECK_DEADLOCK FALSE")
    with open(path, "w", encoding="utf-8") as fh:
        fh.write("\n".join(lines) + "\n")
    return path


def pool_map(fn, items, procs=None, chunksize=None, init=None, initargs=()):
    procs = procs or min(16, os.cpu_count() or 4)
    items = list(items)
    if not items:
        return []
    if procs == 1 or len(items) < 64:
        if init:
            init(*initargs)
        return [fn(x) for x in items]
    ctx = mp.get_context("fork")
    chunksize = chunksize or max(1, len(items) // (procs * 8))
    with ctx.Pool(procs, initializer=init, initargs=initargs) as pool:
        return pool.map(fn, items, chunksize=chunksize)


def write_ndjson(path, events):
    with open(path, "w", encoding="utf-8") as fh:
        for e in events:
            fh.write(json.dumps(e, separators=(",", ":")) + "\n")
