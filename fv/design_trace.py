"""C->S for the design properties: random worlds and formulas are built by /repo, every build is
recorded as one event and judged by TLC (spec/Design_Trace.tla)."""
import os
import random
import shutil

from fv import common, gen, tlc

# which failing clause of the judge belongs to which property
CLAUSE_PROPS = {
    "labels_and_columns_differ_in_number": ["C04", "C05", "C17"],
    "duplicate_labels": ["C04", "C17"],
    "common_cells_differ_from_label_meaning": ["C04"],
    "common_label_order_or_levels": ["C04"],
    "group_cells_differ_from_label_meaning": ["C04", "C05"],
    "group_slot_order_or_levels": ["C05"],
    "response_cells_differ_from_label_meaning": ["C15"],
    "response_level_order": ["C15"],
    "slices_do_not_partition_columns": ["C17", "C04"],   # C04: the labels of a term and its columns are equal in number
    "views_disagree": ["C17"],
    "common_rows_not_the_retained_observations": ["C17", "C09"],
    "group_rows_not_the_retained_observations": ["C17", "C09"],
    "response_rows_not_the_retained_observations": ["C17", "C09", "C15"],
    "incomplete_rows_not_refused": ["C09"],
    "complete_data_refused": ["C09"],
    "response_presence_differs_from_formula": ["C15"],
    "accepted_input_that_must_be_refused": ["C15", "C09", "C16"],
    "rows_not_one_per_observation": ["C17"],
    "printing_fails_or_misreports_shape": ["C17"],
    "exception": ["C17", "C06", "C08", "C15"],
    "labels_changed": ["C06", "C08", "C15"],
    "row_count_differs": ["C06", "C08", "C15"],
    "rows_differ": ["C06", "C08", "C15"],
}


def judge(rep, prop, events, describe, exc_violation=True):
    """Generic: send events (any kind) to Design_Trace; report the clauses that belong to prop.
    describe(event) -> replay data."""
    tmp = tlc.scratch_dir("fv_dj_")
    try:
        path = os.path.join(tmp, "trace.ndjson")
        common.write_ndjson(path, events)
        res = tlc.run_tlc("Design_Trace", env={"FV_TRACE": path}, workers=1, heap="6g", timeout=3000)
        rep.add_tlc("Design_Trace", res)
        if not any(v[1] == "done" and v[2] == len(events) for v in res.fv):
            raise tlc.TLCFailure("Design_Trace did not consume the whole trace")
        rep.cov["traces_validated_against_impl"] += len(events)
        evmap = {e["id"]: e for e in events}
        for v in res.fv:
            if v[1] != "bad":
                continue
            e = evmap[v[2]]
            clause = v[3]
            if prop in CLAUSE_PROPS.get(clause, []):
                sig = {"clause": clause, "judge": "Design_Trace", "kind": e["kind"]}
                if e.get("status") not in (None, "ok"):
                    sig["exc"] = e["status"]
                if e.get("tag"):
                    sig["tag"] = e["tag"]
                rep.violation(sig, describe(e))
            else:
                rep.count("observations_for_other_properties")
    finally:
        shutil.rmtree(tmp, ignore_errors=True)


def _event(args):
    idx, seed, opts = args
    rng = random.Random((seed * 104729 + idx * 7 + opts.get("salt", 0)) & 0xFFFFFFFF)
    na_cols = opts.get("na_cols", ())
    w = gen.gen_world(rng, nmin=opts.get("nmin", 3), nmax=opts.get("nmax", 20), na_rate=opts.get("na_rate", 0.0), na_cols=na_cols, quarters=opts.get("quarters", False))
    if rng.random() < 0.4:
        # the index is irrelevant frame structure: non-unique labels, floats, unsorted
        w.df.index = rng.choice([[rng.choice(["s1", "s2", "s3"]) for _ in range(w.n)], [float(rng.randint(0, 5)) + 0.5 for _ in range(w.n)], list(range(w.n, 0, -1))])
    if opts.get("callee_cols"):
        # unused columns that happen to be named like functions the formula calls (C, I, np, scale ...), with missing values
        for nm in opts["callee_cols"]:
            w.df[nm] = [None if rng.random() < 0.3 else float(rng.randint(0, 3)) for _ in range(w.n)]
    resp = rng.choice(opts.get("resps", ["y"]))
    text, used, struct = gen.gen_formula(rng, groups=opts.get("groups", True), max_terms=opts.get("max_terms", 4), resp=resp, hier=opts.get("hier", 0.85))
    policy = rng.choice(opts.get("policies", ["drop"]))
    between = None
    if opts.get("after_unseen"):
        # a history step before the design is read: it is evaluated on a frame holding never-seen levels of the
        # grouping variables and of f (silent mode); what describes the training design must not move
        def between(dm):
            import warnings

            from formulae import config

            new = w.df.copy()
            for col in ("g", "h", "f"):
                sr = new[col].astype(object)
                for r in range(len(sr)):
                    if rng.random() < 0.4:
                        sr.iloc[r] = "NEW" + str(rng.randint(1, 2))
                new[col] = sr
            old = config["EVAL_UNSEEN_CATEGORIES"]
            config["EVAL_UNSEEN_CATEGORIES"] = "silent"
            try:
                with warnings.catch_warnings():
                    warnings.simplefilter("ignore")
                    for m in (dm.common, dm.group):
                        if m is not None:
                            try:
                                str(m.evaluate_new_data(new))
                            except Exception:  # pylint: disable=broad-except
                                pass
            finally:
                config["EVAL_UNSEEN_CATEGORIES"] = old

    ev, dm = gen.record_build(idx, text, used, w, policy, between=between)
    if opts.get("only_resp") and ev["status"] == "ok":
        # judge the response part on its own (the judge names the first failing clause of an event)
        ev["common"], ev["group"] = dict(gen.EMPTY), dict(gen.EMPTY)
    if opts.get("newdata") and ev["status"] == "ok":
        # the design evaluated on new data (all training rows, reordered / repeated): same labels, same meaning
        ev, err = gen.record_newdata(idx, text, used, w, dm, rng)
        return ev, text, (str(err)[:200] if ev["status"] != "ok" else "")
    return ev, text, (str(dm)[:200] if ev["status"] != "ok" else "")


def run(rep, prop, n, seed, opts, exc_counts_as_violation=False):
    results = common.pool_map(_event, [(i, seed, opts) for i in range(n)])
    events, texts = [], {}
    for ev, text, err in results:
        rep.cov["evaluations"] += 1
        texts[ev["id"]] = (text, err)
        if ev["status"].startswith("projection:"):
            # the harness could not read the object through its public surface
            if prop == "C17":
                rep.violation({"clause": "matrix_object_unreadable", "detail": ev["status"][:60]}, {"formula": text, "frame": ev["frame"]})
            else:
                rep.count("observations_for_other_properties")
            continue
        events.append(ev)
    tmp = tlc.scratch_dir("fv_dt_")
    try:
        path = os.path.join(tmp, "trace.ndjson")
        common.write_ndjson(path, events)
        res = tlc.run_tlc("Design_Trace", env={"FV_TRACE": path}, workers=1, heap="6g", timeout=3000)
        rep.add_tlc("Design_Trace", res)
        if not any(v[1] == "done" and v[2] == len(events) for v in res.fv):
            raise tlc.TLCFailure("Design_Trace did not consume the whole trace")
        rep.cov["traces_validated_against_impl"] += len(events)
        evmap = {e["id"]: e for e in events}
        n_exc = 0
        for v in res.fv:
            if v[1] != "bad":
                continue
            e = evmap[v[2]]
            clause = v[3]
            case = {"formula": texts[v[2]][0], "policy": e["policy"], "status": e["status"], "error": texts[v[2]][1], "frame": {k: c["v"] for k, c in e["frame"]["cols"].items()}, "event_part": {k: e[k] for k in ("common", "group", "resp")}}
            if clause == "exception_on_valid_input":
                n_exc += 1
                if exc_counts_as_violation:
                    rep.violation({"clause": clause, "exc": e["status"], "site": "design_matrices"}, case)
                continue
            if prop in CLAUSE_PROPS.get(clause, []):
                rep.violation({"clause": clause, "site": "design_matrices", "judge": "Design_Trace"}, case)
            else:
                rep.count("observations_for_other_properties")
        rep.count("builds_that_raised", n_exc)
        for e in events:
            if e["status"] == "ok" and len(e["common"]["labels"]) + len(e["group"]["labels"]) >= 4:
                rep.nontrivial_key("T:" + texts[e["id"]][0] + str(e["frame"]["cols"]["f"]["v"]))
        for e in [x for x in events if x["status"] == "ok"][:2]:
            rep.sample({"kind": "C->S build event", "formula": texts[e["id"]][0], "policy": e["policy"], "n": e["frame"]["n"], "common_labels": e["common"]["labels"], "group_labels": e["group"]["labels"][:6]})
    finally:
        shutil.rmtree(tmp, ignore_errors=True)
