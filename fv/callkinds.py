"""S->C for spec/CallKinds.tla: every (type of value returned by a callee, role, intercept) case is
written as a formula over a four-row frame, built by /repo and compared with the columns the
specification prescribes (kind, coding, level order), at training time and on new data."""
import os
import shutil
import warnings

import numpy as np
import pandas as pd

from fv import common, design, tlc

G = ["b", "a", "b", "c"]
X = [1, 2, 3, 4]
S = [1, 0, 2, 1]
N = [2, 2, 3, 1]
NEW_ROWS = [2, 0, 3]


def _frame():
    return pd.DataFrame({"y": np.array([1.0, 2.0, 3.0, 4.0]), "x": np.array(X, dtype=np.int64), "g": np.array(G, dtype=object),
                         "s": np.array(S, dtype=np.int64), "n": np.array(N, dtype=np.int64)})


def _namespace():
    from formulae.categorical import Sum
    from formulae.transforms import C

    return {
        "f_ndarray1": lambda x: np.asarray(x, dtype=float) * 2.0,
        "f_ndarray2": lambda x: np.column_stack([np.asarray(x, dtype=float), np.asarray(x, dtype=float) ** 2]),
        "f_series_num": lambda x: x * 2,
        "f_series_bool": lambda x: x > 2,
        "f_str_array": lambda g: np.array([v.upper() for v in g], dtype=object),
        "f_str_series": lambda g: g.str.upper(),
        "f_cat_unordered": lambda g: pd.Categorical(g, categories=["c", "a", "b"]),
        "f_cat_ordered": lambda g: pd.Categorical(g, categories=["c", "a", "b"], ordered=True),
        "f_box_default": lambda g: C(g),
        "f_box_sum": lambda g: C(g, Sum),
        "f_box_levels": lambda g: C(g, levels=["c", "b", "a"]),
        "f_list": lambda x: list(x),
        "f_dict": lambda x: {"a": 1},
        "f_none": lambda x: None,
        "f_scalar": lambda x: 5.0,
    }


CALLS = {
    "ndarray1": "f_ndarray1(x)", "ndarray2": "f_ndarray2(x)", "series_num": "f_series_num(x)", "series_bool": "f_series_bool(x)",
    "str_array": "f_str_array(g)", "str_series": "f_str_series(g)", "cat_unordered": "f_cat_unordered(g)", "cat_ordered": "f_cat_ordered(g)",
    "box_default": "f_box_default(g)", "box_sum": "f_box_sum(g)", "box_levels": "f_box_levels(g)",
    "offset_col": "offset(x)", "offset_const": "offset(3)", "prop": "prop(s, n)",
    "list": "f_list(x)", "dict": "f_dict(x)", "none": "f_none(x)", "scalar": "f_scalar(x)",
}


def _expected(case):
    """Columns the specification prescribes, computed from (coding, order) and the test data."""
    t = case["t"]
    if case["coding"] == "successes_trials":
        return np.column_stack([S, N]).astype(float)
    if case["coding"] == "values":
        x = np.array(X, dtype=float)
        return {"ndarray1": (x * 2)[:, None], "ndarray2": np.column_stack([x, x**2]), "series_num": (x * 2)[:, None], "series_bool": (x > 2).astype(float)[:, None],
                "offset_col": x[:, None], "offset_const": np.full((4, 1), 3.0)}[t]
    vals = [v.upper() for v in G] if t in ("str_array", "str_series") else list(G)
    levels = {"sorted": sorted(set(vals)), "declared": ["c", "a", "b"], "given": ["c", "b", "a"]}[case["order"]]
    fam, red = case["coding"].split("_")
    ind = np.array([[1.0 if v == l else 0.0 for l in levels] for v in vals])
    if fam == "treatment":
        return ind[:, 1:] if red == "reduced" else ind
    last = levels[-1]
    sm = np.array([[1.0 if v == l else (-1.0 if v == last else 0.0) for l in levels[:-1]] for v in vals])
    return sm if red == "reduced" else np.column_stack([np.ones(len(vals)), sm])


def props_of(case):
    if case["t"] in ("offset_col", "offset_const", "prop"):
        return ["C16"] + (["C15"] if case["t"] == "prop" else [])
    return ["C15"] if case["role"] == "response" else ["C04", "C06"]


def _replay(case):
    call = CALLS[case["t"]]
    df = _frame()
    if case["role"] == "response":
        text = f"{call} ~ x"
    else:
        text = f"y ~ {call}" if case["icpt"] else f"y ~ 0 + {call}"
    base = {"formula": text, "type_returned": case["t"], "role": case["role"], "spec": {k: case[k] for k in ("accepted", "kind", "coding", "order")}}
    st, dm = design.build(text, df, extra_namespace=_namespace())
    if not case["accepted"]:
        if st == "ok":
            return [({"clause": "call_value_that_must_be_refused_was_accepted", "type": case["t"], "role": case["role"]}, base)]
        return []
    if case["role"] == "response" and case["t"] == "box_sum":
        return []   # a sum-coded response is not something the statements speak about
    if st != "ok":
        return [({"clause": "valid_call_value_refused", "type": case["t"], "role": case["role"], "exc": type(dm).__name__}, dict(base, error=str(dm)[:140]))]
    probs = []
    want = _expected(case)
    if case["role"] == "response":
        got = np.asarray(dm.response.design_matrix, dtype=float).reshape(4, -1)
        if case["t"] in ("str_array", "str_series", "cat_unordered", "cat_ordered", "box_default", "box_levels"):
            # a factor as response: one indicator column per level (C15); binary factors are a single column
            pass
    else:
        name = list(dm.common.terms)[-1]
        got = np.asarray(dm.common[name], dtype=float).reshape(4, -1)
        kind = dm.common.terms[name].components[0].kind
        if kind != case["kind"]:
            probs.append(({"clause": "kind_differs_from_specification", "type": case["t"], "role": case["role"]}, dict(base, got=kind)))
    if got.shape != want.shape or not np.allclose(got, want, atol=1e-12):
        probs.append(({"clause": "call_columns_differ_from_specified_coding", "type": case["t"], "role": case["role"]}, dict(base, got=got.tolist(), want=want.tolist())))
        return probs
    # new data: rows of the training frame take the path chosen at training time
    new = df.iloc[NEW_ROWS].reset_index(drop=True)
    try:
        with warnings.catch_warnings():
            warnings.simplefilter("ignore")
            if case["role"] == "response":
                if case["t"] != "prop":
                    return probs
                gotn = np.asarray(dm.response.evaluate_new_data(new), dtype=float).reshape(len(NEW_ROWS), -1)
                wantn = want[NEW_ROWS][:, 1:]
            else:
                res = dm.common.evaluate_new_data(new)
                gotn = np.asarray(res[name], dtype=float).reshape(len(NEW_ROWS), -1)
                wantn = want[NEW_ROWS]
    except Exception as e:  # pylint: disable=broad-except
        probs.append(({"clause": "call_fails_on_new_data", "type": case["t"], "role": case["role"], "exc": type(e).__name__}, dict(base, error=str(e)[:140])))
        return probs
    if gotn.shape != wantn.shape or not np.allclose(gotn, wantn, atol=1e-12):
        probs.append(({"clause": "call_columns_on_new_data_differ", "type": case["t"], "role": case["role"]}, dict(base, got=gotn.tolist(), want=wantn.tolist())))
    return probs


def run(rep, prop):
    """Model check CallKinds, replay every case, report the clauses that belong to prop."""
    tmp = tlc.scratch_dir("fv_ck_")
    try:
        out = os.path.join(tmp, "ck.ndjson")
        cfg = common.write_cfg(os.path.join(tmp, "c.cfg"), constants={"DoExport": True}, invariants=["Meaning", "KindByValue", "Export"], properties=["SamePath", "KindFixed"])
        res = tlc.run_tlc("CallKinds_MC", cfg=cfg, env={"FV_OUT": out}, workers=2, heap="2g", timeout=600, allow_violation=True, coverage=True)
        rep.add_tlc("CallKinds_MC", res)
        if res.violated:
            rep.violation({"clause": "spec_level:" + ",".join(res.violated), "site": "CallKinds.tla"}, {"tlc_tail": res.out[-2000:]})
            return
        cases = tlc.read_export(out)
    finally:
        shutil.rmtree(tmp, ignore_errors=True)
    seen = set()
    for c in cases:
        key = (c["t"], c["role"], c["icpt"] if c["role"] == "predictor" else True)
        if key in seen:
            continue
        seen.add(key)
        if prop not in props_of(c):
            continue
        rep.cov["evaluations"] += 1
        rep.nontrivial_key("K:" + repr(key))
        for sig, case in _replay(c):
            rep.violation(dict(sig, site="Call.set_type / set_data / eval_new_data", judge="CallKinds_MC"), case)
    rep.count("call_kind_cases", len(seen))
