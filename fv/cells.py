"""Object-graph fingerprints: a design (and everything reachable from it) as a table of cells
{path: digest}.  Used to detect writes: after every operation the table is recomputed and diffed."""
import hashlib
import types

import numpy as np
import pandas as pd

SKIP_ATTRS = {"env", "data"}  # evaluation environments (the caller's namespaces) and the caller's frame are fingerprinted separately


def _h(b):
    return hashlib.blake2b(b, digest_size=8).hexdigest()


def digest_value(v):
    if isinstance(v, np.ndarray):
        if v.dtype == object:
            return "nd:" + _h(repr(v.tolist()).encode())
        return "nd:" + str(v.dtype) + str(v.shape) + _h(np.ascontiguousarray(v).tobytes())
    if isinstance(v, pd.Series):
        return "ps:" + str(v.dtype) + _h(repr(v.tolist()).encode()) + _h(repr(list(v.index)).encode())
    if isinstance(v, pd.DataFrame):
        return "df:" + frame_digest(v)
    if isinstance(v, pd.Categorical):
        return "pc:" + _h(repr((v.tolist(), list(v.categories), v.ordered)).encode())
    return "v:" + _h(repr(v).encode())


def frame_digest(df):
    parts = [repr(list(df.columns)), repr(list(df.index)), repr([str(t) for t in df.dtypes])]
    for c in df.columns:
        s = df[c]
        if isinstance(s.dtype, pd.CategoricalDtype):
            parts.append(repr((s.tolist(), list(s.cat.categories), s.cat.ordered)))
        else:
            parts.append(repr(s.tolist()))
    return _h("|".join(parts).encode())


def cells(root, prefix="", out=None, seen=None, depth=0):
    """Walk the object graph; returns {path: digest}.  Shared objects are reported once per path
    (aliasing shows up as two paths with the same id, recorded under '<path>#id')."""
    if out is None:
        out, seen = {}, {}
    if depth > 14:
        return out
    if isinstance(root, (str, int, float, bool, type(None), np.generic, np.ndarray, pd.Series, pd.DataFrame, pd.Categorical, slice, bytes)):
        out[prefix] = digest_value(root)
        return out
    if isinstance(root, (types.ModuleType, types.FunctionType, types.BuiltinFunctionType, type)):
        out[prefix] = "callable:" + getattr(root, "__name__", "?")
        return out
    oid = id(root)
    if oid in seen:
        out[prefix + "#alias"] = "alias:" + seen[oid]
        return out
    seen[oid] = prefix
    if isinstance(root, dict):
        out[prefix + "#keys"] = "v:" + _h(repr([repr(k) for k in root.keys()]).encode())
        for k, v in root.items():
            cells(v, f"{prefix}[{k!r}]", out, seen, depth + 1)
        return out
    if isinstance(root, (list, tuple, set, frozenset)):
        items = list(root) if not isinstance(root, (set, frozenset)) else sorted(root, key=repr)
        out[prefix + "#len"] = "v:" + str(len(items))
        for i, v in enumerate(items):
            cells(v, f"{prefix}[{i}]", out, seen, depth + 1)
        return out
    d = getattr(root, "__dict__", None)
    if d is None:
        out[prefix] = "v:" + _h(repr(root).encode())
        return out
    out[prefix + "#type"] = "t:" + type(root).__name__
    for k, v in d.items():
        if k in SKIP_ATTRS:
            continue
        cells(v, f"{prefix}.{k}", out, seen, depth + 1)
    return out


def diff(before, after):
    """Cells present before whose digest changed or that disappeared."""
    return sorted(k for k in before if after.get(k) != before[k])
