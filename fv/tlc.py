"""TLC runner: model checking, case export and trace judging.

Every TLC invocation goes through `run_tlc`.  The JVM is started directly (the `tlc` wrapper on
PATH uses the parallel collector with an unbounded heap, which costs ~6 s of start-up on this
machine; small jobs use the serial collector and start in ~1.3 s).

Conventions shared with the TLA+ modules in /verif/spec:
  * a module reads its input file name from IOEnv.FV_TRACE and writes exported cases (one
    ToJson string per line, through CSV!CSVWrite) to IOEnv.FV_OUT;
  * verdict lines are printed with PrintT(<<"FV", tag, ...>>) and parsed here with
    `parse_tla_value`.
Exit code 2 of the checks is reserved for failures of this machinery (class TLCFailure).
"""
import json
import os
import re
import shutil
import subprocess
import tempfile
import time

SPEC_DIR = os.path.join(os.path.dirname(os.path.dirname(os.path.abspath(__file__))), "spec")
CP = "/opt/veriftools/tla/tla2tools.jar:/opt/veriftools/tla/CommunityModules-deps.jar"


class TLCFailure(Exception):
    """TLC could not do its job (parse error, evaluation error, timeout, overflow...)."""


def scratch_dir(prefix="fv_"):
    base = "/dev/shm" if os.path.isdir("/dev/shm") and os.access("/dev/shm", os.W_OK) else None
    return tempfile.mkdtemp(prefix=prefix, dir=base)


_STAT_RE = re.compile(r"(\d+) states generated, (\d+) distinct states found, (\d+) states left")
_DEPTH_RE = re.compile(r"depth of the complete state graph search is (\d+)")


class TLCResult:
    def __init__(self):
        self.exit = None
        self.generated = 0
        self.distinct = 0
        self.depth = 0
        self.fv = []  # parsed <<"FV", ...>> tuples
        self.out = ""
        self.wall = 0.0
        self.violated = []  # names of violated invariants / properties
        self.coverage = {}
        self.cmd = ""

    @property
    def transitions(self):
        # every generated state except the initial ones is the result of one transition
        return max(self.generated - 1, 0)


def run_tlc(
    module,
    cfg=None,
    env=None,
    workers=1,
    timeout=600,
    heap="2g",
    simulate=None,
    depth=None,
    coverage=False,
    seed=None,
    extra=None,
    allow_violation=False,
    spec_dir=SPEC_DIR,
):
    """Run TLC on spec/<module>.tla with spec/<cfg>.  Returns a TLCResult.

    Raises TLCFailure on anything other than 'no error' (exit 0) or, when allow_violation is
    set, an invariant/property violation (exit 12/13) -- callers that model known deviations use
    that to read TLC's counterexample.
    """
    cfg = cfg or (module + ".cfg")
    meta = scratch_dir("fv_tlc_")
    big = workers != 1
    jvm = ["java", "-Xss512m", f"-Xmx{heap}"]
    jvm += ["-XX:+UseParallelGC"] if big else ["-XX:+UseSerialGC", "-XX:TieredStopAtLevel=1"]
    if big:
        jvm = ["java", "-Xss512m", f"-Xmx{heap}", "-XX:+UseParallelGC", "-XX:ParallelGCThreads=4"]
    cmd = jvm + ["-cp", CP, "tlc2.TLC", "-workers", str(workers), "-metadir", meta]
    cmd += ["-noGenerateSpecTE", "-config", cfg]
    if simulate:
        cmd += ["-simulate", simulate]
    if depth:
        cmd += ["-depth", str(depth)]
    if coverage:
        cmd += ["-coverage", "1"]
    if seed is not None:
        cmd += ["-seed", str(seed)]
    if extra:
        cmd += list(extra)
    cmd += [module + ".tla"]
    full_env = dict(os.environ)
    full_env.pop("JAVA_TOOL_OPTIONS", None)
    if env:
        full_env.update({k: str(v) for k, v in env.items()})
    res = TLCResult()
    res.cmd = " ".join(cmd)
    t0 = time.time()
    try:
        p = subprocess.run(
            cmd,
            cwd=spec_dir,
            env=full_env,
            stdout=subprocess.PIPE,
            stderr=subprocess.STDOUT,
            timeout=timeout,
            text=True,
        )
    except subprocess.TimeoutExpired as e:
        shutil.rmtree(meta, ignore_errors=True)
        raise TLCFailure(f"TLC timed out after {timeout}s: {module}/{cfg}") from e
    finally:
        res.wall = time.time() - t0
    shutil.rmtree(meta, ignore_errors=True)
    res.exit = p.returncode
    res.out = p.stdout
    for m in _STAT_RE.finditer(p.stdout):
        res.generated, res.distinct = int(m.group(1)), int(m.group(2))
    m = _DEPTH_RE.search(p.stdout)
    if m:
        res.depth = int(m.group(1))
    res.fv = [v for v in extract_fv(p.stdout)]
    for m in re.finditer(r"Invariant (\S+) is violated", p.stdout):
        res.violated.append(m.group(1))
    for m in re.finditer(r"Action property (\S+) is violated", p.stdout):
        res.violated.append(m.group(1))
    if coverage:
        res.coverage = parse_coverage(p.stdout)
    if p.returncode == 0:
        return res
    if allow_violation and p.returncode in (12, 13) and res.violated:
        return res
    tail = "\n".join(p.stdout.splitlines()[-40:])
    raise TLCFailure(f"TLC exit {p.returncode} on {module}/{cfg}\n{tail}")


def sany(module, spec_dir=SPEC_DIR):
    p = subprocess.run(
        ["java", "-XX:+UseSerialGC", "-cp", CP, "tla2sany.SANY", module + ".tla"],
        cwd=spec_dir,
        stdout=subprocess.PIPE,
        stderr=subprocess.STDOUT,
        text=True,
    )
    ok = p.returncode == 0 and "Semantic errors" not in p.stdout and "***Parse Error***" not in p.stdout
    return ok, p.stdout


# ------------------------------------------------------------------ TLA+ value parsing


def extract_fv(text):
    """Yield every <<"FV", ...>> tuple printed by PrintT (bracket matching: with several
    workers the lines of different values can interleave only at line granularity, and a value
    can span lines)."""
    i = 0
    key = '<<"FV"'
    while True:
        i = text.find(key, i)
        if i < 0:
            return
        try:
            val, j = parse_tla_value(text, i)
        except Exception:  # pylint: disable=broad-except
            i += len(key)
            continue
        yield val
        i = j


def parse_tla_value(s, i=0):
    """Parse a TLC-printed value starting at s[i]; returns (python value, next index).
    <<..>> -> list, {..} -> list (set, order as printed), [a |-> v, ..] -> dict,
    "str" -> str, ints, TRUE/FALSE, (k :> v @@ ...) -> dict."""
    n = len(s)

    def ws(i):
        while i < n and s[i] in " \t\r\n":
            i += 1
        return i

    def val(i):
        i = ws(i)
        c = s[i]
        if s.startswith("<<", i):
            i += 2
            out = []
            i = ws(i)
            if s.startswith(">>", i):
                return out, i + 2
            while True:
                v, i = val(i)
                out.append(v)
                i = ws(i)
                if s.startswith(">>", i):
                    return out, i + 2
                assert s[i] == ",", (s[i - 20 : i + 20])
                i += 1
        if c == "{":
            i += 1
            out = []
            i = ws(i)
            if s[i] == "}":
                return out, i + 1
            while True:
                v, i = val(i)
                out.append(v)
                i = ws(i)
                if s[i] == "}":
                    return out, i + 1
                assert s[i] == ","
                i += 1
        if c == "[":
            i += 1
            out = {}
            while True:
                i = ws(i)
                j = i
                while s[j] not in " |":
                    j += 1
                key = s[i:j]
                i = ws(j)
                assert s.startswith("|->", i), s[i : i + 10]
                v, i = val(i + 3)
                out[key] = v
                i = ws(i)
                if s[i] == "]":
                    return out, i + 1
                assert s[i] == ","
                i += 1
        if c == "(":
            # function printed as (k :> v @@ k :> v)
            i += 1
            out = {}
            while True:
                k, i = val(i)
                i = ws(i)
                assert s.startswith(":>", i)
                v, i = val(i + 2)
                out[k if isinstance(k, (str, int)) else json.dumps(k)] = v
                i = ws(i)
                if s[i] == ")":
                    return out, i + 1
                assert s.startswith("@@", i)
                i += 2
        if c == '"':
            j = i + 1
            buf = []
            while s[j] != '"':
                if s[j] == "\\":
                    j += 1
                    buf.append({"n": "\n", "t": "\t"}.get(s[j], s[j]))
                else:
                    buf.append(s[j])
                j += 1
            return "".join(buf), j + 1
        if s.startswith("TRUE", i):
            return True, i + 4
        if s.startswith("FALSE", i):
            return False, i + 5
        m = re.compile(r"-?\d+").match(s, i)
        if m:
            return int(m.group(0)), m.end()
        m = re.compile(r"[A-Za-z_][A-Za-z_0-9]*").match(s, i)
        if m:  # model value
            return m.group(0), m.end()
        raise ValueError(f"cannot parse TLA+ value at {s[i:i+40]!r}")

    return val(i)


def parse_coverage(text):
    """Per-action counts from -coverage 1: {action: (distinct, total)} of the last report."""
    cov = {}
    for m in re.finditer(r"<(\w+) line \d+, col \d+ to line \d+, col \d+ of module (\w+)>: (\d+):(\d+)", text):
        cov[m.group(1)] = (int(m.group(3)), int(m.group(4)))
    return cov


def read_export(path, keep=None, sample=None, rng=None):
    """Lines written by CSV!CSVWrite("%1$s", <<ToJson(rec)>>, file): a JSON string holding JSON.
    keep(rec) filters while reading; sample=k keeps a uniform random sample of k records (reservoir
    sampling, so that exports of several gigabytes never sit in memory at once).  Returns the list,
    and sets read_export.total to the number of records that passed the filter."""
    out = []
    read_export.total = 0
    if not os.path.exists(path):
        return out
    with open(path, encoding="utf-8") as fh:
        for line in fh:
            line = line.strip()
            if not line:
                continue
            rec = json.loads(json.loads(line))
            if keep is not None and not keep(rec):
                continue
            read_export.total += 1
            if sample is None or len(out) < sample:
                out.append(rec)
            else:
                j = rng.randrange(read_export.total)
                if j < sample:
                    out[j] = rec
    return out


read_export.total = 0
