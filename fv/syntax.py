"""Formula syntax glue for C01/C12: projection of formulae's AST to the tree encoding of
spec/Grammar.tla, rendering of token-kind strings to text, sentence generation."""
import random

ATOMS = ("IDENTIFIER", "NUMBER", "STRING", "BQNAME", "PYTHON_LITERAL")

# one or more concrete lexemes per token kind; identifiers never spell a built-in or 'I'
LEXEMES = {
    "IDENTIFIER": ["x", "yy", "z1", "a_b", "np.log", "w.v.u"],
    "NUMBER": ["2", "10", "3.5", ".25", "0", "1"],
    "STRING": ["'a'", '"b c"', "'1'", '"x+y"'],
    "BQNAME": ["`a b`", "`x+1`", "`@`"],
    "PYTHON_LITERAL": ["True", "False", "None"],
    "LEFT_PAREN": ["("],
    "RIGHT_PAREN": [")"],
    "LEFT_BRACKET": ["["],
    "RIGHT_BRACKET": ["]"],
    "LEFT_BRACE": ["{"],
    "RIGHT_BRACE": ["}"],
    "COMMA": [","],
    "PERIOD": ["."],
    "PLUS": ["+"],
    "MINUS": ["-"],
    "SLASH": ["/"],
    "SLASH_SLASH": ["//"],
    "STAR": ["*"],
    "STAR_STAR": ["**"],
    "BANG": ["!"],
    "BANG_EQUAL": ["!="],
    "EQUAL": ["="],
    "EQUAL_EQUAL": ["=="],
    "LESS": ["<"],
    "LESS_EQUAL": ["<="],
    "GREATER": [">"],
    "GREATER_EQUAL": [">="],
    "MODULO": ["%"],
    "TILDE": ["~"],
    "COLON": [":"],
    "PIPE": ["|"],
}

_WORD = set("abcdefghijklmnopqrstuvwxyzABCDEFGHIJKLMNOPQRSTUVWXYZ0123456789._")


def needs_blank(a, b):
    """Conservative: would the concatenation a+b scan differently from a, b?"""
    if not a or not b:
        return False
    if a[-1] in _WORD and b[0] in _WORD:
        return True
    if a in ("*", "/") and b[0] == a:
        return True
    if a in ("=", "!", "<", ">") and b[0] == "=":
        return True
    return False


def render(lexemes, style, rng):
    """style 0: minimal blanks; 1: single blanks; 2: random runs of blank/tab/newline,
    also at both ends."""
    out = []
    prev = ""
    for lx in lexemes:
        if style == 0:
            sep = " " if needs_blank(prev, lx) else ""
        elif style == 1:
            sep = " " if prev else ""
        else:
            k = rng.randint(0 if not needs_blank(prev, lx) else 1, 3)
            sep = "".join(rng.choice(" \t\n") for _ in range(k))
        out.append(sep + lx)
        prev = lx
    s = "".join(out)
    if style == 2:
        s = " " * rng.randint(0, 2) + s + "".join(rng.choice(" \t\n") for _ in range(rng.randint(0, 2)))
    return s


def pick_lexemes(kinds, rng):
    return [rng.choice(LEXEMES[k]) for k in kinds]


# ------------------------------------------------------------------ projection of the AST


def project(node):
    """formulae.expr node -> nested list in the encoding of Grammar.tla."""
    from formulae import expr as E

    if isinstance(node, E.Variable):
        if node.level is None:
            return ["atom", "IDENTIFIER"]
        lv = node.level
        if isinstance(lv, E.Literal):
            if lv.lexeme is not None:
                return ["sub", ["atom", "STRING"]]
            if isinstance(lv.value, str):
                return ["sub", ["atom", "IDENTIFIER"]]
        return ["sub", project(lv)]
    if isinstance(node, E.Literal):
        if node.lexeme is not None:
            return ["atom", "STRING"]
        if isinstance(node.value, bool) or node.value is None:
            return ["atom", "PYTHON_LITERAL"]
        return ["atom", "NUMBER"]
    if isinstance(node, E.QuotedName):
        return ["atom", "BQNAME"]
    if isinstance(node, E.Grouping):
        return ["grp", project(node.expression)]
    if isinstance(node, E.Binary):
        return ["bin", node.operator.kind, project(node.left), project(node.right)]
    if isinstance(node, E.Unary):
        return ["un", node.operator.kind, project(node.right)]
    if isinstance(node, E.Call):
        callee = node.callee
        is_i = (
            isinstance(callee, E.Variable)
            and callee.level is None
            and callee.name.lexeme == "I"
            and len(node.args) == 1
        )
        return ["call", project(callee), [project(a) for a in node.args], bool(is_i)]
    if isinstance(node, E.Assign):
        return ["assign", project(node.name), project(node.value)]
    return ["unknown", type(node).__name__]


def strip_groups(t):
    if t[0] == "grp":
        return strip_groups(t[1])
    if t[0] == "sub":
        return ["sub", strip_groups(t[1])]
    if t[0] == "call":
        return ["call", strip_groups(t[1]), [strip_groups(a) for a in t[2]], t[3]]
    if t[0] == "un":
        return ["un", t[1], strip_groups(t[2])]
    if t[0] == "bin":
        return ["bin", t[1], strip_groups(t[2]), strip_groups(t[3])]
    if t[0] == "assign":
        return ["assign", strip_groups(t[1]), strip_groups(t[2])]
    return t


# ------------------------------------------------------------------ sentence generation
# Random sentences of the documented formula language, produced from a *tree* so that the
# intended structure is known; rendering inserts only the parentheses the precedence table
# requires, plus optional redundant ones.

BIN_LEVEL = {"TILDE": 1, "PIPE": 2, "PLUS": 4, "MINUS": 4, "STAR": 5, "SLASH": 5, "COLON": 6, "STAR_STAR": 7}
for _op in ("EQUAL_EQUAL", "BANG_EQUAL", "LESS_EQUAL", "LESS", "GREATER_EQUAL", "GREATER"):
    BIN_LEVEL[_op] = 3


def level(t):
    tag = t[0]
    if tag == "assign":
        return 0
    if tag == "bin":
        return BIN_LEVEL[t[1]]
    if tag == "un":
        return 8
    if tag == "call":
        return 10 if t[3] else 9
    return 10


def tokens_of(t, extra_paren, rng, brace=None):
    """Kinds of the token string whose grammar tree is t (t is a Valid tree without redundant
    grouping); with probability extra_paren a sub-expression in expression position gets
    redundant parentheses.  Returns (kinds, tree including the added grp nodes)."""

    def wrap(kinds, tree, allowed):
        if allowed and extra_paren and rng.random() < extra_paren:
            return ["LEFT_PAREN"] + kinds + ["RIGHT_PAREN"], ["grp", tree]
        return kinds, tree

    def go(t, allowed=True):
        tag = t[0]
        if tag == "atom":
            return wrap([t[1]], t, allowed)
        if tag == "sub":
            k, tr = go(t[1], False)
            return wrap(["IDENTIFIER", "LEFT_BRACKET"] + k + ["RIGHT_BRACKET"], ["sub", tr], allowed)
        if tag == "grp":
            k, tr = go(t[1])
            return wrap(["LEFT_PAREN"] + k + ["RIGHT_PAREN"], ["grp", tr], allowed)
        if tag == "call":
            if t[3] and brace:
                k, tr = go(t[2][0])
                return wrap(["LEFT_BRACE"] + k + ["RIGHT_BRACE"], ["call", t[1], [tr], True], allowed)
            ck, ctr = go(t[1], False)
            kinds = ck + ["LEFT_PAREN"]
            args = []
            for i, a in enumerate(t[2]):
                if a[0] == "assign":
                    vk, vtr = go(a[2])
                    ak, atr = ["IDENTIFIER", "EQUAL"] + vk, ["assign", a[1], vtr]
                else:
                    ak, atr = go(a)
                kinds += (["COMMA"] if i else []) + ak
                args.append(atr)
            return wrap(kinds + ["RIGHT_PAREN"], ["call", ctr, args, t[3]], allowed)
        if tag == "un":
            k, tr = go(t[2])
            return wrap([t[1]] + k, ["un", t[1], tr], allowed)
        if tag == "bin":
            lk, ltr = go(t[2])
            rk, rtr = go(t[3])
            return wrap(lk + [t[1]] + rk, ["bin", t[1], ltr, rtr], allowed)
        raise ValueError(tag)

    return go(t)


def gen_tree(rng, depth, lvl=1, in_call=False):
    """A random Valid tree whose top level is >= lvl (parenthesised when the drawn operator
    binds less tightly)."""

    def atom():
        r = rng.random()
        if r < 0.6:
            return ["atom", "IDENTIFIER"]
        if r < 0.8:
            return ["atom", "NUMBER"]
        if r < 0.87:
            return ["atom", "BQNAME"]
        if r < 0.93 and in_call:
            return ["atom", rng.choice(["STRING", "PYTHON_LITERAL"])]
        return ["sub", ["atom", rng.choice(["IDENTIFIER", "STRING"])]]

    if depth <= 0:
        return atom()
    r = rng.random()
    if r < 0.12:
        return atom()
    if r < 0.2:
        t = ["un", rng.choice(["PLUS", "MINUS"]), gen_tree(rng, depth - 1, 8, in_call)]
    elif r < 0.32:
        n = rng.randint(0, 3)
        args = []
        for _ in range(n):
            if rng.random() < 0.25:
                args.append(["assign", ["atom", "IDENTIFIER"], gen_tree(rng, depth - 2, 4, True)])
            else:
                args.append(gen_tree(rng, depth - 1, 1 if rng.random() < 0.1 else 3, True))
        callee = ["atom", "IDENTIFIER"]
        t = ["call", callee, args, False]
    elif r < 0.36:
        t = ["call", ["atom", "IDENTIFIER"], [gen_tree(rng, depth - 1, 3, True)], True]
    else:
        ops = [o for o, l in BIN_LEVEL.items() if (l >= 2 if depth < 99 else True)]
        op = rng.choice(["PLUS", "PLUS", "MINUS", "STAR", "SLASH", "COLON", "COLON", "STAR_STAR", "PIPE"] + (ops if in_call else []))
        if op == "TILDE":
            op = "PLUS"
        L = BIN_LEVEL[op]
        t = ["bin", op, gen_tree(rng, depth - 1, L, in_call), gen_tree(rng, depth - 1, L + 1, in_call)]
    if level(t) < lvl:
        t = ["grp", t]
    return t


def gen_formula_tree(rng, depth):
    rhs = gen_tree(rng, depth, 4)
    if rng.random() < 0.7:
        lhs = rng.choice([["atom", "IDENTIFIER"], ["sub", ["atom", "IDENTIFIER"]], ["call", ["atom", "IDENTIFIER"], [["atom", "IDENTIFIER"]], False]])
        return ["bin", "TILDE", lhs, rhs]
    return rhs
