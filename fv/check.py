"""Entry point: python -m fv.check <id> [--tier quick|thorough] [--replay file]."""
import argparse
import importlib
import os
import sys
import traceback

from fv import common


def main():
    ap = argparse.ArgumentParser()
    ap.add_argument("prop")
    ap.add_argument("--tier", default=os.environ.get("VERIF_TIER", "quick"), choices=["quick", "thorough"])
    ap.add_argument("--replay", default=None)
    a = ap.parse_args()
    seed = common.seed_from_env()
    try:
        mod = importlib.import_module("fv.drivers." + a.prop.lower())
        if a.replay:
            rc = mod.replay(a.replay)
        else:
            rc = mod.main(a.tier, seed)
    except SystemExit:
        raise
    except Exception:  # pylint: disable=broad-except
        traceback.print_exc()
        print(f"[{a.prop}] machinery failure (exit 2): no verdict", file=sys.stderr)
        sys.exit(2)
    sys.exit(rc)


if __name__ == "__main__":
    main()
