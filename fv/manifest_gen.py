"""Regenerates MANIFEST.json from the table below (python -m fv.manifest_gen)."""
import json
import os

ROOT = os.path.dirname(os.path.dirname(os.path.abspath(__file__)))

CHECKS = {
    "C01": {
        "technique": "TLA+ spec (Grammar.tla, Lexer.tla) model checked with TLC; TLC-enumerated token/character strings replayed into Scanner/Parser/model_description; recorded parses of generated sentences judged by TLC (Grammar_Trace)",
        "text": "Bounded-exhaustive: TLC proves on every token string (<=4 over 22 kinds quick; <=4 over 27, <=5 over 16, <=6 over 10 kinds thorough) and every character-class string (<=4 / <=5 over 16 classes) that the stratified grammar is unambiguous, that its two definitions agree and that the transcription of parser.py/scanner.py refines it; every one of those strings is then run through the real Scanner, Parser and model_description and compared with the Abs verdict (in the language? which tree? all tokens consumed?). Beyond the bound, generated sentences up to depth 9 and single-token mutations are parsed by the real code and each recorded parse is judged by TLC (valid tree, yield = all tokens, = generating tree); for every fifth sentence all calls of the Parser methods are recorded with sys.setprofile and checked step by step against the spec operator of that method; long random character strings are scanned by the real code and judged by Lexer_Trace.",
        "ref": "DESIGN.md §3.1, §3.2, §4 C01",
        "note": "Trusted: TLC, the AST projection fv/syntax.py:project, the renderer (lexeme pool is ASCII; the character-level replay also draws non-ASCII letters for the letter class). Acceptance of a sentence is never demanded (the statement allows rejection).",
    },
    "C02": {
        "technique": "TLA+ spec (TermAlgebra.tla: set-valued denotation + transcription of the operator overloads) model checked with TLC over every formula up to an operator bound; each exported formula replayed into model_description; random deeper formulas judged by TLC (TermAlgebra_Trace)",
        "text": "Bounded-exhaustive: a stack machine enumerates every formula of the documented language (term expressions over + - : * / **, intercept literals as additive items of the right-hand side and of effect sides, group terms) up to 4 operators over 3 atoms incl. a call with a literal argument (quick: 145k formulas; thorough: 4 atoms, and 5 operators over 2 atoms; variables are written with multi-character names that are anagrams of each other; group expressions are subtracted as well as added); TLC checks that the class-by-class transcription of terms.py (terms compared as sets of components, as the code does since the term-identity repair) refines the set semantics outside one named deviation class; every formula is then resolved by the real code, with and without response, and compared with the Abs denotation. Random formulas of depth <= 7 with up to 5 additive items are resolved by the real code and judged by TLC. The name of every term must spell exactly its factors, each once.",
        "ref": "DESIGN.md §3.4, §4 C02",
        "note": "Trusted: TLC, fv/project.py:model_abs, the renderer in fv/drivers/c02.py. A term is the set of its factors (a:b = b:a), for the code as for the specification; '-' applied to a chain without a term and effect sides that denote nothing are outside the domain. Open finding KF_C02_late_literal.",
    },
    "C04": {
        "technique": "TLA+ specs (Design.tla: cell-level meaning of labels, label order, slices; CallKinds.tla: kind, coding and level order of the value a call returns; DesignOrder.tla: column order of interactions) model checked with TLC on a small scope; every TLC-generated (frame, formula) case replayed into design_matrices and compared cell by cell; recorded builds on random frames judged by TLC (Design_Trace)",
        "text": "TLC enumerates every frame of the small scope (3-4 rows, factors with up to 3 levels) x 18 formula shapes (incl. nesting f/g, group terms of two factors, subset-notation responses), checks the Abs design function's theorems and exports the complete expected design (labels, cells, slices); the real code is run on each and must agree exactly. Random worlds (3-30 rows, now and then 45-75; factors with 2-4 and now and then up to 11 levels, 2-5 or 9-12 integer levels of k; factors stored as object / pandas string / Categorical / ordered Categorical / integer-via-C columns, integers stored as int64 / float64 / nullable Int64, unequal level counts, numeric calls, interactions up to arity 3 in random factor order, group terms) are built by the real code and every recorded design is judged by TLC: each cell equals the meaning of its label, labels and columns agree in number and order, levels sorted or as declared, cartesian label order with the first factor slowest. The same designs are then evaluated on new data (all training rows, reordered and partly repeated) and the resulting matrices are judged against the same labels; other designs are read only after they were evaluated and printed on frames with never-seen levels. CallKinds_MC: every type of value a callee may return (1- and 2-column arrays, numeric and boolean Series, strings, unordered / ordered categoricals, CategoricalBox with default / Sum / explicit levels, list, dict, None, scalar) x with / without intercept is returned by a user callee in a formula and the columns must be those of the specified coding and level order, at training time and on new data.",
        "ref": "DESIGN.md §3.7, §4 C04",
        "note": "Trusted: TLC, fv/design.py and fv/gen.py (materialisation of abstract frames, parsing of label strings with the generator's name tables). Integer-valued data only (exact products). Builds that raise are counted, not judged here.",
    },
    "C09": {
        "technique": "TLA+ spec (Design.tla: UsedVars / Incomplete rows / policies) model checked with TLC; TLC-generated frames with missing cells replayed under the three policies; recorded builds on random frames with missing values judged by TLC, which computes the incomplete rows itself",
        "text": "TLC proves on the small scope that drop equals the build on the pre-dropped frame, error refuses iff an incomplete row exists, pass keeps all rows with complete rows as under drop, and that missing values in unused columns change nothing; every case is replayed into design_matrices. Random worlds with 5-30% missing cells in used and unused columns (variables inside calls, C(), group terms, the response) are built under the three policies; the default policy is left out every other time; unknown policies (incl. near misses of the three spellings) must be refused on complete data; TLC recomputes the incomplete rows from the used variables and judges the recorded matrices against the frame with exactly those rows removed, the refusal, and the NaN pattern.",
        "ref": "DESIGN.md §3.7, §4 C09",
        "note": "Trusted: as C04. Categorical NA under 'pass' is outside the domain. The used variables of a generated formula are the ones the generator wrote into its text.",
    },
    "C15": {
        "technique": "TLA+ spec (Design.tla response meaning; Design_Trace judge with build / rows / refuse events) checked with TLC; small-scope cases replayed; recorded response forms judged by TLC",
        "text": "Small-scope S->C incl. a categorical response; recorded builds with numeric / str / Categorical / ordered / call responses judged cell by cell; a factor-valued response has its indicator columns in level order (sorted, numeric for integer classes, or as declared); subset notation y[ident], y['quoted'], y[\"quoted\"] must be 1 exactly where y equals the level, also for a level that never occurs, is a declared but unobserved category, or occurs only on dropped rows (an all-zero column); prop/p/proportion with column or constant trials must give successes and trials and refuse invalid data; predictors must be identical under a different response (rows relation judged by TLC); multi-term responses (also two subsets of one variable) must be refused; no response => no response matrix; CallKinds_MC: every type of value a callee may return, used as the response (factor-valued results give one indicator per level in sorted / declared / given order, prop only as response, offset refused); missing values in columns the formula does not use must not cost the response a row (response part judged alone).",
        "ref": "DESIGN.md §3.7, §4 C15",
        "note": "Trusted: as C04; the label of a subset-notation response is taken from the formula text.",
    },
    "C17": {
        "technique": "TLA+ container invariants (Design_MC ShapeOK; Design_Trace build and object clauses) checked by TLC on every matrix object of small-scope replays, random builds and evaluate_new_data chains",
        "text": "Every matrix object produced by the small-scope replays, by random builds and by chains of evaluate_new_data (subsets, unseen groups in silent mode) is recorded, and the containers of a design are recorded again after another design was built from the same formula text on other data; an exception anywhere in a silent-mode chain is a violation; TLC checks that slices are contiguous from 0 in term order and cover all columns and that rows = retained observations; the harness-computed view agreement ([name] = slice, unknown name refused, as_dataframe / asarray / unpacking agree, unique column names, str()/repr() succeed and show the shape) is part of each event.",
        "ref": "DESIGN.md §4 C17",
        "note": "Trusted: fv/drivers/c17_objects.py:object_event and fv/gen.py:matrix_event compute the view-agreement booleans.",
    },
    "C06": {
        "technique": "TLA+ theorem SubsetReproduces (Design_MC) model checked with TLC over every row sequence of small training frames and replayed through evaluate_new_data; recorded evaluations of random designs on row multisets judged by TLC (rows relation on value ids)",
        "text": "TLC enumerates every row sequence (length <= 2 quick, <= 3 thorough) of every small-scope training frame x 13 formula shapes, proves that the Abs evaluation on those rows equals the corresponding rows of the training matrices, and each case is replayed through CommonEffectsMatrix/GroupEffectsMatrix.evaluate_new_data. Random worlds x formulas with nested and interacting stateful transforms (center, scale, standardize, bs, poly, binary/B), C/T/S codings incl. levels=, ordered categoricals and group terms are evaluated on subsets, permutations, repetitions, single rows and single-level subsets of their training frame; TLC judges result[i] = training[sel[i]] on interned values and equal slices; frame objects that were evaluated before and refilled in place are among the selections. CallKinds_MC: new data take the path of the kind decided at training time (SamePath, KindFixed).",
        "ref": "DESIGN.md §4 C06",
        "note": "Trusted: TLC, fv/rows.py (value interning at 1e-9 relative tolerance). Inputs on which poly/bs are degenerate (fewer distinct values than the degree needs) are not generated.",
    },
    "C08": {
        "technique": "TLA+ action property PermEquivariant (Design_MC) model checked with TLC over all permutations of small frames and replayed; recorded pairs of builds on transformed frames judged by TLC (rows relation)",
        "text": "TLC proves on every small-scope frame and every non-identity permutation that the Abs design of the permuted frame is the row-permuted design with identical labels and slices, and every permuted frame is replayed into design_matrices (quick: 3-row frames, all; thorough: 4-row frames, a uniform sample of 120 000 of the exported cases). Random worlds x formulas (stateful transforms, codings, group terms, categorical responses) are built on the frame and on a copy with permuted rows, a non-unique / float / unsorted / reset index, shuffled columns and unused columns added (incl. NA) or dropped (also for formulas that name no column of the frame); TLC judges b[i] = a[perm[i]] on interned values with equal labels, levels and slices.",
        "ref": "DESIGN.md §4 C08",
        "note": "Trusted: TLC, fv/rows.py. Equality up to 1e-9 relative (summation order changes the last bits of fitted means).",
    },
    "C07": {
        "technique": "TLA+ spec of API-call histories (Lifecycle.tla: designs own cells, operations have write sets) model checked with TLC over all histories up to a bound; every TLC-generated history and random longer ones are run against the real code with per-call cell fingerprints and fresh-process references; each recorded call judged by TLC (Lifecycle_Trace)",
        "text": "TLC explores every history of build / evaluate-common / evaluate-group / set-config (3 formulas x 2 training frames x new frames with and without unseen levels x 3 modes + an undocumented value) up to length 3 (quick, 1.4k maximal histories) / 4 (thorough) and proves Frozen, HistoryIndependent and ConfigDiscipline from the write sets; each maximal history is replayed: after every call all cells reachable from every live design, every earlier result, the caller's frames and namespace and the config are re-fingerprinted (writes outside the write set are violations) and the outcome is compared with the same single operation in a process forked from a pristine template (a newly started interpreter that has imported formulae and never run it). Random histories of up to 25 calls with up to 4 live designs over nine formulas (incl. a user-defined stateful transform, numeric levels stored as int / float, a remembered success level 0, an encoding object from the caller's namespace shared by two formulas) add prints, registrations and model_description calls.",
        "ref": "DESIGN.md §3.8, §4 C07",
        "note": "Trusted: fv/cells.py (object-graph walk), fv/fresh.py (fork server), TLC. Outcomes are compared as digests of matrices rounded to 1e-10.",
    },
    "C10": {
        "technique": "TLA+ spec (Design.tla: levels frozen at training, zero rule, trailing group block, factor list; Lifecycle config discipline) model checked with TLC (UnseenTheorem) and replayed; recorded evaluations with unseen levels under mode sequences judged by TLC (Design_Trace unseen clause, Lifecycle_Trace config clause)",
        "text": "TLC enumerates rows of every small-scope training frame with cells of the predictor f, the grouping variable g or both replaced by a never-seen level under the three modes, proves the zero rule / block-width rule on the Abs evaluation and exports the expected matrices, slices and factor lists; cases are replayed through evaluate_new_data with the configured mode (warnings matched by formulae's message). Random worlds x formulas with unseen levels placed in predictors, effect and grouping variables (str, ordered categorical, C(k), sum-coded S(h) / C(g, Sum), a numeric grouping variable, interaction factors), up to 3 evaluations per design with mode changes in between (a new frame or the very same frame object again), are judged event by event by TLC. 28 assignments of documented and undocumented keys/values are judged against the config discipline; the mode of a fresh process must be 'error'. Unseen levels include values that are false in Python (0, the empty string).",
        "ref": "DESIGN.md §3.7, §3.8, §4 C10",
        "note": "Trusted: as C04. In 'error' mode an unseen level anywhere in the evaluated matrix must raise ValueError. Integer-valued data.",
    },
    "C03": {
        "technique": "TLA+ spec (Contrasts.tla: atom theory = Abs; transcription of pick_contrast / _get_encoding_groups / add_extra_terms / Model.eval = Impl) model checked with TLC over every ordered family of terms; every family replayed into design_matrices on complete-factorial data and decided by exact integer rank computations; recorded pick_contrasts calls judged by TLC against the spec action",
        "text": "TLC enumerates every ordered family of <= 3 terms (<= 3 factors each) over {f,g,h,x} with and without intercept (4760), families with swapped factor orders over {f,g,h,x,z}, every family of <= 2 terms of arity <= 4 over four categorical factors (thorough: <= 4 terms), two-term families over six factors and over one factor with three numeric variables, 38 spellings with operators incl. terms reached twice with their factors in another order, and proves that the modelled algorithm covers every required atom exactly once (the same model with the repairs switched off yields the pinned tree's counterexamples). Each exported family is built by the real code on replicated complete-factorial data with random level counts 2..4, as plain variables and as C/T/S/scale/center/bs/poly atoms with random factor order, on integer and on quarter-valued numeric columns, and checked with exact ranks: rank(X) = ncol(X) = sum over atoms of prod(levels-1)*widths and rank([X B]) = rank(B) for the full-indicator basis B built from the family. Recorded pick_contrasts calls of random builds must equal the spec action PickGroup (drift only).",
        "ref": "DESIGN.md §3.5, §4 C03",
        "note": "Trusted: TLC, fv/rank.py (mod-p elimination with two primes, exact Bareiss on disagreement), numpy SVD with a gap test for float atoms (unclear gaps are counted, not judged), the data generator (replication >= 2 + 3 x numeric width, distinct numeric values). Families are sets of terms.",
    },
    "C05": {
        "technique": "TLA+ spec: Design.tla (block structure, slot order, cell meaning of e|g[l] labels) and Contrasts.tla (atom theory applied to the effect-side family of each grouping factor) model checked with TLC; small-scope replay, recorded builds judged by TLC, effect families decided by exact ranks",
        "text": "Cell-level: Design_MC group formulas replayed exactly; random builds with group terms (intercept, numeric, categorical, call and interaction effects; single, interaction, sum and C() grouping expressions; the same effect under two factors) judged by TLC: every cell equals the effect value on the rows of its group and 0 elsewhere, group slots in level order with the effect fastest, labels = columns. Coding: every ordered family of <= 2 effect terms over {f,h,x} with and without '0 +', for grouping expressions g, g:k, C(g), with the effect factors plain, as a spline or wrapped in calls (C(f), C(h, Sum)), and the distributing forms (e | g + k), (e | g/k), written jointly, as separate group terms in random order and with the group intercept left implicit, on replicated fully crossed data: the columns of each grouping factor must have full rank and span indicator(g) (x) full effect coding (exact integer ranks).",
        "ref": "DESIGN.md §3.5, §3.7, §4 C05",
        "note": "Trusted: as C03/C04. Open finding KF_C05_effect_coding: families on which the code's simplified rule (spec predicate SimpleRuleExact) is not an exact cover.",
    },
    "C13": {
        "technique": "TLA+ spec (Coding.tla: validity predicates with exact fraction-free ranks = Abs; index-formula transcription of categorical.py = Impl) model checked with TLC for every size and reference; spec matrices compared with the real Treatment/Sum objects; real matrices judged by TLC; option handling replayed through design_matrices against the spec's matrices; interchangeability through Contrasts.tla + exact ranks",
        "text": "TLC proves for every n <= 11 (quick) / 13 (thorough) and every reference / omitted level that the transcribed constructions satisfy the validity predicates (indicator columns with zero reference row; zero column sums with the omitted level coded -1; k = n-1; rank n together with the constant; full codings of rank n; labels name the levels) and the real Treatment/Sum outputs must equal the spec's matrices (string and integer level values; an encoding object used for another level list first must behave like a fresh one); the real matrices for n <= 13 are judged by TLC directly. Every permutation of <= 4 (5) levels passed as levels= x every reference x string and integer level values (incl. 0 not in first place, and integers whose text order differs from their numeric order) x 10 spellings with levels= and 7 without (default order = sorted values); levels= that do not cover the data and a reference / omitted level that is no level must be refused of C/T/S (incl. defaults and the T = C(Treatment), S = C(Sum) synonyms) x with/without intercept is built by the real code and compared with the spec's rows and level labels. Swapping codings never changes the column space: C03's exact-rank replay with variable / C / T(ref) / S / C(Sum) atoms, on integer and on quarter-valued numeric columns.",
        "ref": "DESIGN.md §3.6, §4 C13",
        "note": "Trusted: TLC integer arithmetic (32-bit; determinants of 0/±1 matrices up to 13x13 stay far below 2^31), fv/rank.py.",
    },
    "C11": {
        "technique": "TLA+ spec (Scopes.tla: ordered scope chain, one action per probe) model checked with TLC over the complete configuration space; every terminal state replayed into design_matrices through synthetic caller modules with sentinels",
        "text": "Complete enumeration: all 5376 configurations (which of data / built-ins / caller locals / caller globals / extra_namespace define the name; decoy definitions in the locals and globals of frames that env does not select and in Python's own built-in namespace (a name spelled like max / abs); role argument or callee; an argument written plain, back-quoted, as the value of a keyword argument or inside an expression that is such a value, a callee plain or dotted with three or four components (a wrong turn a.b.f planted beside a.b.c.f); env 0..3). TLC checks FirstMatchWins, DecoysIrrelevant and NoShadowing on the probe-by-probe machine and exports the winner of each configuration; the harness builds four nested callers in four synthetic modules, plants distinguishable sentinels and observes which object reaches a recording function (argument role) or gets called (callee role, dotted via attribute access); an undefined name must raise. The built-in scope is probed with a name of each registry (transforms and encodings: 8448 replays); bindings to None are bindings, and a logging extra_namespace records whether the last scope was asked: Scopes_Trace checks that it is probed iff no earlier scope defines the name (path conformance).",
        "ref": "DESIGN.md §3.9, §4 C11",
        "note": "Trusted: the sentinel harness fv/drivers/c11.py (a back-quoted name that is not an identifier cannot be a Python local: that scope is treated as not defining it).",
    },
    "C12": {
        "technique": "TLA+ spec (PyExpr.tla: Python's expression grammar = Abs; Grammar.tla's transcription of the formula parser = Impl) model checked with TLC (difference theorem) over every short argument token string; each Python expression replayed through formulae and through CPython's eval with recording operands; recorded evaluations of random expressions judged by TLC (PyExpr_Trace); spec tree cross-checked with the ast module",
        "text": "TLC enumerates every token string up to 5 tokens over {name, number, + - * / ** ( ) <} and up to 7 tokens over {name, number, + * ** ( )} (1.07M strings), proves that every expression of the Python fragment is accepted by the formula parser and that the two trees differ exactly on the PowIssue class, and exports the Python expressions; each is evaluated with recording operands inside a call through formulae and with eval(), and the received operator trees / constant values must be equal; the term name must be whitespace-invariant and spell the same Python AST as the source. Random expressions of depth <= 6 with random whitespace are evaluated by the real code and the received tree is judged by TLC against Python's tree. Literals (int/float/str/True/False/None), keyword arguments, nested calls, quote style, {e} = I(e) and names bound to None / 0 / False / '' / [] (passed as they are, also when a local shadows an outer binding) and dotted callees whose attributes are reassigned or whose object is replaced between two builds are checked on fixed cases.",
        "ref": "DESIGN.md §3.3, §4 C12",
        "note": "Trusted: the recording operand class (comparisons with a constant on the left are reflected by Python and excluded), CPython's eval/ast as ground truth. Chained comparisons, keyword repetition and unsupported operators are outside the domain. Open finding KF_C12_pow.",
    },
    "C14": {
        "technique": "TLA+ spec in exact rational arithmetic (Transforms.tla: contracts = Abs; percentile knots, Cox-de Boor recursion, three-term recurrence and the branch table of BSpline._initialize = Impl) model checked with TLC on all small integer inputs; exact values replayed into formulae.transforms at 1e-9; TLC as exact oracle for harness-chosen longer inputs",
        "text": "TLC proves in exact rationals, for every integer vector of length 3..4 over 0..3 and degree 1..3, that center has mean zero, scale has unit population variance, the poly recurrence gives mutually orthogonal columns orthogonal to the constant; for every non-constant vector of length 4 over 0..2 (quick) / 4..5 over 0..4 (thorough) x 0..2 inner knots x degree 0..3 x intercept x explicit boundary knots 0 or 1 beyond the data on either side that the B-spline basis on percentile knots has the documented number of columns, is non-negative and sums to one (also on later data with remembered knots); and that the branch table of BSpline._initialize equals the documented refusal rules on all 5600 parameter classes (knots outside the boundary knots are replayed for given knots and for percentile knots under an explicit bound inside the data); documented defaults (degree 3, no intercept; poly degree 1) are left out now and then. Every case is replayed into the real Center/Scale/Polynomial/BSpline objects (training call, then later data on the same instance; raw=True = powers; explicit knots = df; the same values tiled to 70-190 shuffled rows must reproduce the short rows) and compared with the exact values. center / scale / standardize / poly are also reached by name through a formula (design built on x, then evaluated on the later data) and must give the values of the judged objects; the exact values of center / scale are also demanded of the same data shifted by 1e6 and 1e7. Longer vectors with ties are decided with the spec as oracle.",
        "ref": "DESIGN.md §3.10, §4 C14, §8",
        "note": "NOT decided by this technique: accuracy of bs / poly under large offsets / ill-conditioning, degree > 3, long vectors (TLC has 32-bit integers and no floats). Irrational outputs (scale, orthonormal poly) are compared through their squares and signs. Open finding KF_C14_knot_at_upper_bound.",
    },
    "C16": {
        "technique": "TLA+ spec (Helpers.tla: binary / offset / prop as train-then-predict state machines, pointwise meaning and frozen success level as invariants) model checked with TLC on every small case, each terminal state replayed through formulas into design_matrices / evaluate_new_data; CallKinds.tla for the roles of offset and prop; recorded helper calls on random worlds judged by TLC (Design_Trace build / unseen / rows / refuse clauses over Design.tla's label meaning)",
        "text": "TLC enumerates every training column of <= 3 rows over 3 values x every success level / constant / trials argument (omitted, occurring, never occurring) x every new column of <= 2 (thorough 3) rows over 4 values (incl. unseen), proves Meaning, BinaryPointwise, NewShape and the action property Frozen on the object-level machine and exports each terminal state; every case is written as a formula (integer and string renderings, B/binary, prop/p/proportion, positional and keyword spellings), built and evaluated on the new frame by the real code and compared with the spec's columns and refusals. Random worlds, one helper per event: binary/B with explicit and default success level on str and numeric variables (and new frames lacking that level), offset of a column, a call and positive / negative / float constants (training and new frames with changed values), prop/p/proportion with positional, keyword and constant trials (training response; trials of the new frame at prediction), I(e)/{e}; alias pairs (B=binary, p=prop=proportion, standardize=scale, T(x,r)=C(x,Treatment(r)), S(x,o)=C(x,Sum(o))) as row relations; invalid arguments (success level absent in training, successes > trials, fractional successes, offset as response, prop as predictor, offset of a factor) must be refused. TLC evaluates the meaning of each column's label on the recorded frame and compares every cell.",
        "ref": "DESIGN.md §4 C16",
        "note": "Trusted: the label assigned to a helper's column by fv/drivers/c16.py (taken from the statement); integer data.",
    },
}

NOT_YET = "check not built yet (work in progress; see DESIGN.md §9 build order)"


def main():
    props = [json.loads(l) for l in open(os.path.join(ROOT, "properties.jsonl"), encoding="utf-8")]
    man = {
        "version": 1,
        "setup_cmd": "/venv/bin/python -m fv.setup",
        "hooks": {
            "guard": "FORMULAE_VERIF",
            "enable": "no source hooks: checks import /repo's working tree directly and observe through the public API and external wrappers; FORMULAE_VERIF is reserved and currently guards nothing",
            "baseline_off_cmd": "cd /repo && /venv/bin/python -m pytest -ra -q -p no:cacheprovider --timeout=900 --continue-on-collection-errors",
            "source_commits": [],
            "add_only": True,
        },
        "engines": [
            {
                "name": "tlc",
                "path": "/opt/veriftools/tla/tla2tools.jar",
                "serves_properties": sorted(CHECKS),
                "kind_free_text": "TLC 1.8 explicit-state model checker; specs in /verif/spec; runner fv/tlc.py",
            }
        ],
        "checks": [],
        "not_applicable": [],
        "notes": "All checks: TLA+ specification (Abs = property, Impl = transcription of the code) model checked with TLC, bound to the code by replaying TLC-exported cases into /repo (S->C) and by TLC judging traces recorded from /repo (C->S). See DESIGN.md.",
    }
    for p in props:
        pid = p["id"]
        if pid in CHECKS:
            c = CHECKS[pid]
            man["checks"].append(
                {
                    "property_id": pid,
                    "quick_cmd": f"./bin/check {pid} --tier quick",
                    "thorough_cmd": f"./bin/check {pid} --tier thorough",
                    "evidence_file": f"evidence/{pid}.json",
                    "replay_cmd_template": f"./bin/check {pid} --replay {{path}}",
                    "engine": "tlc",
                    "technique": c["technique"],
                    "level_claimed": {"category": "model_checking", "text": c["text"], "design_ref": c["ref"]},
                    "level_note": c["note"],
                }
            )
        else:
            man["not_applicable"].append({"property_id": pid, "reason": NOT_YET})
    with open(os.path.join(ROOT, "MANIFEST.json"), "w", encoding="utf-8") as fh:
        json.dump(man, fh, indent=1)


if __name__ == "__main__":
    main()
