"""Fresh process-state reference (C07 and friends): a pristine template process that has only
imported formulae forks one child per request; the child runs the operation once, returns the
projected outcome through a pipe and exits.  The template is a newly started interpreter (not a
fork of the harness process, whose formulae module may already carry state) and never runs
formulae code itself."""
import os
import pickle
import struct
import subprocess
import sys


def _read_exact(fd, n):
    buf = b""
    while len(buf) < n:
        chunk = os.read(fd, n - len(buf))
        if not chunk:
            raise EOFError
        buf += chunk
    return buf


def _send(fd, obj):
    data = pickle.dumps(obj, protocol=4)
    os.write(fd, struct.pack("<Q", len(data)))
    off = 0
    while off < len(data):
        off += os.write(fd, data[off : off + 65536])


def _recv(fd):
    (n,) = struct.unpack("<Q", _read_exact(fd, 8))
    return pickle.loads(_read_exact(fd, n))


class FreshServer:
    """fn must be a module-level function (pickled by reference); it is executed in a grandchild
    forked from a template process that imported formulae and nothing else."""

    def __init__(self):
        self.pid = None
        self.req_w = self.res_r = None
        self.memo = {}

    def start(self):
        req_r, req_w = os.pipe()
        res_r, res_w = os.pipe()
        root = os.path.dirname(os.path.dirname(os.path.abspath(__file__)))
        env = dict(os.environ, PYTHONPATH=root + os.pathsep + os.environ.get("PYTHONPATH", ""))
        code = "from fv import common, fresh; common.use_repo(); fresh.FreshServer._template(%d, %d)" % (req_r, res_w)
        self.proc = subprocess.Popen([sys.executable, "-c", code], pass_fds=(req_r, res_w), env=env, stdin=subprocess.DEVNULL)
        os.close(req_r)
        os.close(res_w)
        self.pid, self.req_w, self.res_r = self.proc.pid, req_w, res_r

    @staticmethod
    def _template(req_r, res_w):
        import formulae  # noqa: F401  pylint: disable=unused-import,import-outside-toplevel

        while True:
            try:
                fn, args = _recv(req_r)
            except EOFError:
                return
            r, w = os.pipe()
            pid = os.fork()
            if pid == 0:
                os.close(r)
                try:
                    out = ("ok", fn(*args))
                except BaseException as e:  # pylint: disable=broad-except
                    out = ("harness-exc", repr(e))
                try:
                    _send(w, out)
                finally:
                    os._exit(0)
            os.close(w)
            try:
                out = _recv(r)
            except EOFError:
                out = ("harness-exc", "child died")
            os.close(r)
            os.waitpid(pid, 0)
            _send(res_w, out)

    def call(self, fn, *args, key=None):
        if key is not None and key in self.memo:
            return self.memo[key]
        if self.pid is None:
            self.start()
        _send(self.req_w, (fn, args))
        st, out = _recv(self.res_r)
        if st != "ok":
            raise RuntimeError("fresh reference failed: " + str(out))
        if key is not None:
            self.memo[key] = out
        return out

    def stop(self):
        if self.pid is not None:
            os.close(self.req_w)
            os.close(self.res_r)
            self.proc.wait()
            self.pid = None
