#!/venv/bin/python
"""Confirm a seeded change and run checks against it.

usage: seedtest.py <dir with patch.diff, demo.py> <property id> [more property ids to run]
Creates a scratch worktree of /repo outside /repo and /verif, confirms that the demonstration
passes without and fails with the change and that the pinned suite stays at its baseline, runs
the given checks (quick tier) against the changed tree through FV_REPO, removes the worktree.
Prints one JSON line with the results.
"""
import json
import os
import re
import shutil
import subprocess
import sys
import tempfile
import time


def sh(cmd, cwd=None, env=None, timeout=3000):
    p = subprocess.run(cmd, cwd=cwd, env=env, shell=isinstance(cmd, str), stdout=subprocess.PIPE, stderr=subprocess.STDOUT, text=True, timeout=timeout)
    return p.returncode, p.stdout


def main():
    src = os.path.abspath(sys.argv[1])
    props = sys.argv[2:]
    wt = tempfile.mkdtemp(prefix="fvseed_", dir="/tmp")
    os.rmdir(wt)
    out = {"dir": src, "props": props}
    try:
        rc, o = sh(["git", "-C", "/repo", "worktree", "add", "-q", "--detach", wt, "HEAD"])
        assert rc == 0, o
        shutil.copy(os.path.join(src, "demo.py"), os.path.join(wt, "demo.py"))
        rc, o = sh(["/venv/bin/python", "demo.py"], cwd=wt, timeout=600)
        out["demo_clean_rc"] = rc
        rc, o = sh(["git", "apply", os.path.join(src, "patch.diff")], cwd=wt)
        out["apply_rc"] = rc
        if rc != 0:
            out["apply_out"] = o[-300:]
            print(json.dumps(out))
            return
        rc, o = sh(["/venv/bin/python", "demo.py"], cwd=wt, timeout=600)
        out["demo_mutant_rc"] = rc
        out["demo_mutant_out"] = o.strip().splitlines()[-1][:200] if o.strip() else ""
        rc, o = sh(["/venv/bin/python", "-m", "pytest", "-q", "-p", "no:cacheprovider", "-x", "--deselect", "tests/test_poly.py::test_basic", "--deselect", "tests/test_poly.py::test_degree"], cwd=wt, timeout=900)
        m = re.search(r"(\d+) passed", o)
        out["suite_passed"] = int(m.group(1)) if m else None
        out["suite_rc"] = rc
        out["confirmed"] = out["demo_clean_rc"] == 0 and out["demo_mutant_rc"] != 0 and rc == 0 and out["suite_passed"] == 135
        env = dict(os.environ, FV_REPO=wt, VERIF_SEED=os.environ.get("VERIF_SEED", "1"), FV_EVIDENCE_DIR="/dev/shm/fv_seed_evidence")
        out["checks"] = {}
        for p in props:
            t0 = time.time()
            rc, o = sh(["./bin/check", p, "--tier", "quick"], cwd="/verif", env=env, timeout=3000)
            lines = [l for l in o.splitlines() if l.startswith("VIOLATION") or l.strip().startswith("clause=")]
            out["checks"][p] = {"rc": rc, "wall": round(time.time() - t0, 1), "violations": [l.strip()[:220] for l in lines if l.strip().startswith("clause=")][:6]}
    finally:
        sh(["git", "-C", "/repo", "worktree", "remove", "--force", wt])
        shutil.rmtree(wt, ignore_errors=True)
    print(json.dumps(out))


if __name__ == "__main__":
    main()
