#!/venv/bin/python
"""Store a confirmed seeded change under /verif/seeded/<name>/ (patch.diff, demo.py, notes.md, meta.json)
and regenerate seeded/README.md.   usage: save_seed.py <src dir> <name> <property> '<json: result of seedtest>' [status note]"""
import json
import os
import shutil
import sys

ROOT = "/verif/seeded"


def main():
    src, name, prop, res = sys.argv[1], sys.argv[2], sys.argv[3], json.loads(sys.argv[4])
    note = sys.argv[5] if len(sys.argv) > 5 else ""
    d = os.path.join(ROOT, name)
    os.makedirs(d, exist_ok=True)
    for f in ("patch.diff", "demo.py", "notes.md"):
        if os.path.exists(os.path.join(src, f)) and os.path.realpath(os.path.join(src, f)) != os.path.realpath(os.path.join(d, f)):
            shutil.copy(os.path.join(src, f), os.path.join(d, f))
    notes = open(os.path.join(d, "notes.md"), encoding="utf-8").read() if os.path.exists(os.path.join(d, "notes.md")) else ""
    meta = {
        "name": name,
        "property": prop,
        "origin": "independent sub-agent given only the property text and a scratch worktree",
        "needs_to_manifest": notes.strip().split("\n\n")[0][:1200],
        "confirmed": {
            "demo_passes_on_unchanged_tree": res.get("demo_clean_rc") == 0,
            "demo_fails_with_change": res.get("demo_mutant_rc") not in (0, None),
            "pinned_suite_with_change": f"{res.get('suite_passed')} passed (2 pre-existing test_poly failures deselected), rc={res.get('suite_rc')}",
            "how": "tools/seedtest.py: scratch worktree of /repo under /tmp, git apply, demo.py, pytest, quick checks with FV_REPO=<worktree>, worktree removed",
        },
        "checks_run": {p: {"exit": c["rc"], "violations": c["violations"][:3]} for p, c in res.get("checks", {}).items()},
        "caught_by": sorted(p for p, c in res.get("checks", {}).items() if c["rc"] == 1),
        "note": note,
    }
    with open(os.path.join(d, "meta.json"), "w", encoding="utf-8") as fh:
        json.dump(meta, fh, indent=1)
    # README
    rows = []
    for n in sorted(os.listdir(ROOT)):
        mp = os.path.join(ROOT, n, "meta.json")
        if os.path.exists(mp):
            m = json.load(open(mp, encoding="utf-8"))
            first = m["needs_to_manifest"].replace("\n", " ").replace("|", "/")[:160]
            rows.append(f"| {n} | {m['property']} | {', '.join(m['caught_by']) or 'NOT CAUGHT'} | {m.get('note', '')} | {first} |")
    with open(os.path.join(ROOT, "README.md"), "w", encoding="utf-8") as fh:
        fh.write("# Seeded changes\n\nEach directory holds a change to bambinos/formulae written by an independent sub-agent that saw only the property text, "
                 "with its demonstration and what was run. None is committed to /repo. `caught by` lists the quick checks that exit 1 with the change applied.\n\n"
                 "| change | property | caught by | note | what it is |\n|---|---|---|---|---|\n" + "\n".join(rows) + "\n")


if __name__ == "__main__":
    main()
