#!/bin/sh
# For every stored seeded change (or those whose name matches $1, a shell pattern such as 'C*-[E-L]'): apply it to
# /repo itself, run the quick check of its property, undo it straight afterwards (the procedure of the brief).
# Prints one line per change.  Evidence of these runs goes to /dev/shm, never to /verif/evidence.
cd /verif || exit 2
pat=${1:-C*-[A-Z]}
mkdir -p /dev/shm/fv_seed_evidence
for d in seeded/$pat; do
  [ -f "$d/patch.diff" ] || continue
  name=$(basename "$d"); prop=${name%-*}
  if ! git -C /repo apply --check "/verif/$d/patch.diff" 2>/dev/null; then echo "$name: patch does not apply"; continue; fi
  git -C /repo apply "/verif/$d/patch.diff"
  out=$(FV_EVIDENCE_DIR=/dev/shm/fv_seed_evidence VERIF_SEED=${VERIF_SEED:-1} ./bin/check "$prop" --tier quick 2>&1); rc=$?
  git -C /repo checkout -- .
  echo "$name: check $prop exit=$rc $(echo "$out" | grep -c '^VIOLATION') violation lines"
done
git -C /repo status --short | head -3
