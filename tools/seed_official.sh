#!/bin/sh
# For every stored seeded change: apply it to /repo itself, run the quick check of its property, undo it
# straight afterwards (the procedure of the brief).  Prints one line per change.
cd /verif || exit 2
mkdir -p /dev/shm/fv_seed_evidence
for d in seeded/C*-[ABCD]; do
  name=$(basename "$d"); prop=${name%-*}
  if ! git -C /repo apply --check "/verif/$d/patch.diff" 2>/dev/null; then echo "$name: patch does not apply"; continue; fi
  git -C /repo apply "/verif/$d/patch.diff"
  out=$(FV_EVIDENCE_DIR=/dev/shm/fv_seed_evidence VERIF_SEED=${VERIF_SEED:-1} ./bin/check "$prop" --tier quick 2>&1); rc=$?
  git -C /repo checkout -- .
  echo "$name: check $prop exit=$rc $(echo "$out" | grep -c '^VIOLATION') violation lines"
done
git -C /repo status --short | head -3
