--------------------------- MODULE Lifecycle_Trace ---------------------------
(* Judge for recorded histories of API calls (C07).  Events (one per call, in order; a new    *)
(* history starts with op = "reset"):                                                         *)
(*   op      "build" | "eval" | "config" | "print" | "describe"                               *)
(*   v       the value assigned (config)                                                      *)
(*   status  "ok" or the exception type;  ref_status: the same call in a fresh process        *)
(*   out, ref  interned fingerprints of the outcome and of the fresh-process outcome          *)
(*   changed  names of the cells that existed before the call and differ after it             *)
(*            (designs, earlier results, the caller's frames and namespace, config)           *)
(*   mode    the configuration value read back after the call                                 *)
EXTENDS Naturals, Sequences, FiniteSets, TLC, Json, IOUtils
VARIABLES i, config, nbad
Ev == ndJsonDeserialize(IOEnv.FV_TRACE)
Modes == {"error", "warning", "silent"}
SetOf(s) == {s[k] : k \in 1..Len(s)}
Allowed(e) == IF e.op = "config" /\ e.v \in Modes THEN {"config"} ELSE IF e.op = "register" THEN {"registry"} ELSE {}
Clause(e, cfg) ==
  IF e.op = "reset" THEN "none"
  ELSE IF SetOf(e.changed) \ Allowed(e) # {} THEN "wrote_outside_write_set"
  ELSE IF e.op = "config" /\ e.v \in Modes /\ (e.status # "ok" \/ e.mode # e.v) THEN "documented_value_not_stored"
  ELSE IF e.op = "config" /\ e.v \notin Modes /\ (e.status = "ok" \/ e.mode # cfg) THEN "undocumented_value_accepted"
  ELSE IF e.op # "config" /\ e.mode # cfg THEN "config_changed_without_assignment"
  ELSE IF e.op = "register" THEN (IF e.status = "ok" THEN "none" ELSE "registration_failed")
  ELSE IF e.op # "config" /\ e.status # e.ref_status THEN "status_differs_from_fresh_process"
  ELSE IF e.op # "config" /\ e.out # e.ref THEN "outcome_differs_from_fresh_process"
  ELSE "none"
Init == i = 1 /\ config = "error" /\ nbad = 0
Step ==
  /\ i <= Len(Ev)
  /\ LET e == Ev[i]
         c == Clause(e, config)
     IN /\ (c # "none") => PrintT(<<"FV", "bad", e.id, c>>)
        /\ nbad' = IF c = "none" THEN nbad ELSE nbad + 1
        \* resynchronise from the logged state so that the rest of the history is still checked
        /\ config' = IF e.op = "reset" THEN "error" ELSE IF e.mode \in Modes THEN e.mode ELSE config
  /\ i' = i + 1
Spec == Init /\ [][Step]_<<i, config, nbad>>
Consumed == TLCGet("stats").diameter = Len(Ev) + 1 /\ PrintT(<<"FV", "done", Len(Ev)>>)
=============================================================================
