--------------------------- MODULE Contrasts_Trace ---------------------------
(* Judge for recorded calls of formulae.contrasts.pick_contrasts (C->S, Impl conformance):     *)
(* event = [id, group: <<<<key, <<factor...>>>>...>>, result: <<<<key, <<coding...>>>>...>>]    *)
(* with coding = <<<<factor, includes_intercept>>...>>.  The spec action PickGroup must give   *)
(* exactly the recorded codings, term by term, in order.                                       *)
EXTENDS Contrasts, Json, IOUtils
VARIABLES i, nbad
Ev == ndJsonDeserialize(IOEnv.FV_TRACE)
AsSets(codings) == [k \in 1..Len(codings) |-> {<<codings[k][j][1], codings[k][j][2]>> : j \in 1..Len(codings[k])}]
Clause(e) ==
  LET want == PickGroup(e.group, 1, {}) IN
    IF Len(want) # Len(e.result) THEN "number_of_terms"
    ELSE IF \E k \in 1..Len(want) : want[k][1] # e.result[k][1] THEN "term_order"
    ELSE IF \E k \in 1..Len(want) : want[k][2] # AsSets(e.result[k][2]) THEN "codings_differ_from_spec_action"
    ELSE "none"
Init == i = 1 /\ nbad = 0
Step ==
  /\ i <= Len(Ev)
  /\ LET c == Clause(Ev[i]) IN
       /\ (c # "none") => PrintT(<<"FV", "bad", Ev[i].id, c>>)
       /\ nbad' = IF c = "none" THEN nbad ELSE nbad + 1
  /\ i' = i + 1
Spec == Init /\ [][Step]_<<i, nbad>>
Consumed == TLCGet("stats").diameter = Len(Ev) + 1 /\ PrintT(<<"FV", "done", Len(Ev)>>)
=============================================================================
