------------------------------ MODULE Transforms ------------------------------
(***************************************************************************)
(* Stateful transforms (C14) in exact rational arithmetic.                 *)
(* A rational is <<num, den>> with den > 0, in lowest terms.  TLC's        *)
(* integers are 32 bit: the constants of the models are small enough, and  *)
(* an overflow is a machinery failure, never a verdict.                    *)
(*                                                                         *)
(* Abs: the mathematical contracts (mean zero, unit variance, partition of *)
(* unity, non-negativity, orthogonality, column counts, refusals).         *)
(* Impl: the computations of formulae/transforms.py: percentile knots,     *)
(* Cox-de Boor recursion (what splev evaluates), the three-term recurrence *)
(* of poly, and BSpline._initialize as a decision table.                   *)
(***************************************************************************)
EXTENDS Integers, Sequences, FiniteSets, TLC

(* ------------------------------ rationals ------------------------------- *)
Abs(a) == IF a < 0 THEN -a ELSE a
RECURSIVE GCD(_, _)
GCD(a, b) == IF b = 0 THEN a ELSE GCD(b, a % b)
Norm(n, d) ==
  LET s == IF d < 0 THEN -1 ELSE 1
      g == GCD(Abs(n), Abs(d))
  IN IF n = 0 THEN <<0, 1>> ELSE <<(s * n) \div g, (s * d) \div g>>
R(n) == <<n, 1>>
RAdd(a, b) == LET g == GCD(a[2], b[2]) IN Norm(a[1] * (b[2] \div g) + b[1] * (a[2] \div g), (a[2] \div g) * b[2])
RNeg(a) == <<-a[1], a[2]>>
RSub(a, b) == RAdd(a, RNeg(b))
RMul(a, b) == LET g1 == GCD(Abs(a[1]), b[2]) g2 == GCD(Abs(b[1]), a[2]) IN
                IF a[1] = 0 \/ b[1] = 0 THEN <<0, 1>>
                ELSE Norm((a[1] \div g1) * (b[1] \div g2), (a[2] \div g2) * (b[2] \div g1))
RDiv(a, b) == RMul(a, IF b[1] < 0 THEN <<-b[2], -b[1]>> ELSE <<b[2], b[1]>>)     \* b # 0
RLess(a, b) == a[1] * b[2] < b[1] * a[2]
RLeq(a, b) == a[1] * b[2] <= b[1] * a[2]
RECURSIVE RSum(_)
RSum(s) == IF s = <<>> THEN <<0, 1>> ELSE RAdd(s[1], RSum(Tail(s)))
RFloor(a) == IF a[1] >= 0 THEN a[1] \div a[2] ELSE -((-a[1] + a[2] - 1) \div a[2])

(* ------------------------------ center / scale -------------------------- *)
Mean(x) == RDiv(RSum([k \in 1..Len(x) |-> R(x[k])]), R(Len(x)))
\* center(y) with the mean remembered from the training vector x
Center(x, y) == [k \in 1..Len(y) |-> RSub(R(y[k]), Mean(x))]
\* population variance of x
Var(x) == RDiv(RSum([k \in 1..Len(x) |-> RMul(Center(x, x)[k], Center(x, x)[k])]), R(Len(x)))
\* scale(y)^2 and the sign of scale(y), parameters from x  (the values themselves are irrational)
ScaleSq(x, y) == [k \in 1..Len(y) |-> RDiv(RMul(Center(x, y)[k], Center(x, y)[k]), Var(x))]
Sign(a) == IF a[1] > 0 THEN 1 ELSE IF a[1] < 0 THEN -1 ELSE 0
CenterMeanZero(x) == RSum(Center(x, x)) = <<0, 1>>
ScaleUnitVariance(x) == Var(x) # <<0, 1>> => RSum(ScaleSq(x, x)) = R(Len(x))

(* ------------------------------ poly ------------------------------------ *)
\* unnormalised orthogonal polynomials by the three-term recurrence of Polynomial.eval:
\*   P_0 = 1, P_i = (x - alpha_{i-1}) P_{i-1} - (norm2_{i-1} / norm2_{i-2}) P_{i-2}
Dot(a, b) == RSum([k \in 1..Len(a) |-> RMul(a[k], b[k])])
RECURSIVE PolyCols(_, _)
\* sequence <<P_0, ..., P_d>> on the training vector x (each a sequence of rationals)
PolyCols(x, d) ==
  IF d = 0 THEN << [k \in 1..Len(x) |-> R(1)] >>
  ELSE LET prev == PolyCols(x, d - 1)
           p1 == prev[d]
           xs == [k \in 1..Len(x) |-> R(x[k])]
           alpha == RDiv(Dot(xs, [k \in 1..Len(x) |-> RMul(p1[k], p1[k])]), Dot(p1, p1))
           base == [k \in 1..Len(x) |-> RMul(RSub(xs[k], alpha), p1[k])]
           new == IF d = 1 THEN base
                  ELSE LET p0 == prev[d - 1]
                           beta == RDiv(Dot(p1, p1), Dot(p0, p0))
                       IN [k \in 1..Len(x) |-> RSub(base[k], RMul(beta, p0[k]))]
       IN Append(prev, new)
Distinct(x) == Cardinality({x[k] : k \in 1..Len(x)})
PolyDefined(x, d) == d < Distinct(x)       \* otherwise P_d vanishes on the data
PolyOrthogonal(x, d) ==
  PolyDefined(x, d) =>
    LET P == PolyCols(x, d) IN
      /\ \A i, j \in 1..(d + 1) : i < j => Dot(P[i], P[j]) = <<0, 1>>    \* mutually orthogonal, and to the constant (i = 1)
      /\ \A i \in 1..(d + 1) : Dot(P[i], P[i]) # <<0, 1>>
\* orthonormal column i (1..d) squared, and its sign
PolySq(x, d, i) == LET P == PolyCols(x, d) IN [k \in 1..Len(x) |-> RDiv(RMul(P[i + 1][k], P[i + 1][k]), Dot(P[i + 1], P[i + 1]))]
PolySign(x, d, i) == LET P == PolyCols(x, d) IN [k \in 1..Len(x) |-> Sign(P[i + 1][k])]

(* ------------------------------ bs -------------------------------------- *)
\* np.percentile(x, 100 q) with linear interpolation; q = a / b
SortAsc(x) ==
  LET RECURSIVE Ins(_, _)
      Ins(s, v) == LET pos == Cardinality({k \in 1..Len(s) : s[k] <= v}) IN SubSeq(s, 1, pos) \o <<v>> \o SubSeq(s, pos + 1, Len(s))
      RECURSIVE Go(_, _)
      Go(acc, k) == IF k > Len(x) THEN acc ELSE Go(Ins(acc, x[k]), k + 1)
  IN Go(<<>>, 1)
Percentile(x, a, b) ==
  LET s == SortAsc(x)
      pos == RMul(<<a, b>>, R(Len(x) - 1))
      lo == RFloor(pos)
      frac == RSub(pos, R(lo))
  IN IF lo + 1 >= Len(s) THEN R(s[Len(s)])
     ELSE RAdd(R(s[lo + 1]), RMul(frac, R(s[lo + 2] - s[lo + 1])))
\* inner knots at equally spaced quantiles: np.linspace(0, 1, k + 2)[1:-1]
InnerKnots(x, k) == [j \in 1..k |-> Percentile(x, j, k + 1)]
Min(x) == CHOOSE v \in {x[k] : k \in 1..Len(x)} : \A k \in 1..Len(x) : v <= x[k]
Max(x) == CHOOSE v \in {x[k] : k \in 1..Len(x)} : \A k \in 1..Len(x) : v >= x[k]
\* knot vector: both boundary knots (lower_bound / upper_bound, by default the extremes of the
\* training data) repeated degree + 1 times, inner knots in between, sorted
AllKnots(inner, degree, lb, ub) ==
  [k \in 1..(degree + 1) |-> R(lb)] \o inner \o [k \in 1..(degree + 1) |-> R(ub)]
\* Cox-de Boor; the last basis function is closed on the right at the upper boundary (as splev)
RECURSIVE BBasis(_, _, _, _)
BBasis(t, i, p, u) ==   \* t knots (1-based), basis i of degree p at u
  IF p = 0
  THEN IF (RLeq(t[i], u) /\ RLess(u, t[i + 1]))
          \/ (u = t[Len(t)] /\ RLess(t[i], t[i + 1]) /\ t[i + 1] = t[Len(t)])
       THEN R(1) ELSE R(0)
  ELSE LET d1 == RSub(t[i + p], t[i])
           d2 == RSub(t[i + p + 1], t[i + 1])
           a == IF d1 = <<0, 1>> THEN R(0) ELSE RMul(RDiv(RSub(u, t[i]), d1), BBasis(t, i, p - 1, u))
           b == IF d2 = <<0, 1>> THEN R(0) ELSE RMul(RDiv(RSub(t[i + p + 1], u), d2), BBasis(t, i + 1, p - 1, u))
       IN RAdd(a, b)
\* bs(y) with parameters from the training vector x and the boundary knots lb <= Min(x), ub >= Max(x):
\* rows of rationals
BSMatrixB(x, y, ninner, degree, intercept, lb, ub) ==
  LET t == AllKnots(InnerKnots(x, ninner), degree, lb, ub)
      nb == Len(t) - (degree + 1)
      first == IF intercept THEN 1 ELSE 2
  IN [r \in 1..Len(y) |-> [c \in 1..(nb - first + 1) |-> BBasis(t, c + first - 1, degree, R(y[r]))]]
BSMatrix(x, y, ninner, degree, intercept) == BSMatrixB(x, y, ninner, degree, intercept, Min(x), Max(x))
InBounds(x, v) == Min(x) <= v /\ v <= Max(x)
BSNonNegative(m) == \A r \in 1..Len(m) : \A c \in 1..Len(m[r]) : ~RLess(m[r][c], R(0))
BSPartitionOfUnity(m) == \A r \in 1..Len(m) : RSum(m[r]) = R(1)

(* ------------------------------ BSpline._initialize as a decision table --- *)
\* parameters: df (-1 = None), nk number of knots given (-1 = None), degree, degree_is_int, df_is_int,
\* intercept, bounds_ok (lower <= upper), knots_inside (all knots - given, or derived from the data as percentiles - within the bounds)
\* Abs: what the statement demands
BSDecisionAbs(p) ==
  IF ~p.degree_is_int \/ p.degree < 0 THEN "refuse"
  ELSE IF p.df = -1 /\ p.nk = -1 THEN "refuse"
  ELSE IF p.df # -1 /\ ~p.df_is_int THEN "refuse"
  ELSE IF p.df # -1 /\ p.df - (p.degree + 1) + (IF p.intercept THEN 0 ELSE 1) < 0 THEN "refuse"        \* df too small
  ELSE IF p.df # -1 /\ p.nk # -1 /\ p.nk # p.df - (p.degree + 1) + (IF p.intercept THEN 0 ELSE 1) THEN "refuse"
  ELSE IF ~p.bounds_ok \/ ~p.knots_inside THEN "refuse"
  ELSE "accept"
\* number of columns of an accepted call: df, or knots + degree (+ 1 with intercept)
BSColumns(p) ==
  LET ninner == IF p.nk # -1 THEN p.nk ELSE p.df - (p.degree + 1) + (IF p.intercept THEN 0 ELSE 1)
  IN ninner + p.degree + (IF p.intercept THEN 1 ELSE 0)
\* Impl: the branches of _initialize in order
BSDecisionImpl(p) ==
  IF ~p.degree_is_int THEN "refuse"
  ELSE IF p.degree < 0 THEN "refuse"
  ELSE IF p.df = -1 /\ p.nk = -1 THEN "refuse"
  ELSE IF p.df # -1 /\ p.df # 0 /\ ~p.df_is_int THEN "refuse"          \* 'if df and not isinstance(df, int)'
  ELSE LET order == p.degree + 1
           n_inner == p.df - order + (IF p.intercept THEN 0 ELSE 1)
       IN IF p.df # -1 /\ n_inner < 0 THEN "refuse"
          ELSE IF p.df # -1 /\ p.nk # -1 /\ p.nk # n_inner THEN "refuse"
          ELSE IF ~p.bounds_ok THEN "refuse"
          ELSE IF ~p.knots_inside THEN "refuse"
          ELSE "accept"
=============================================================================
