------------------------------- MODULE Lexer -------------------------------
(***************************************************************************)
(* Impl layer of the lexer: the scanner's state machine.  The Abs layer   *)
(* (maximal munch over the token classes) is in LexerAbs.tla.             *)
(* Characters -> tokens (formulae/scanner.py).  Property C01: whitespace   *)
(* between tokens never matters, unterminated quotes and a second '~' are  *)
(* refused, no character of an accepted formula is dropped.                *)
(*                                                                         *)
(* Characters are abstracted to classes:                                   *)
(*   "a" letter   "d" digit   "." period   "_" underscore   "q" '   "Q" "    *)
(*   "b" backquote   "s" blank/tab/newline/CR   "*" "/" "=" "!"            *)
(*   "<" (< or >)   "~"   "p" single-character punctuation ()[]{},+-%:|    *)
(*   "@" any character the language does not use                           *)
(*                                                                         *)
(* Abs layer: maximal munch over declaratively given token classes         *)
(* (AbsTokens).  Impl layer: the scanner's state machine, one action per   *)
(* branch of Scanner.scan_token, then the tilde check and the insertion of *)
(* the implicit intercept.                                                 *)
(***************************************************************************)
EXTENDS LexerAbs

(* ------------------------------ Impl ------------------------------------ *)
CONSTANT QuoteStrict   \* TRUE: a string is closed by its own quote character (repaired tree);
                       \* FALSE: by either quote character (pinned tree: 'a" was a string)
VARIABLES cs, cur, toks, st   \* st: "scan" | "post" | "ok" | "err"
vars == <<cs, cur, toks, st>>
CONSTANT MaxLen

Init ==
  /\ cs \in UNION {[1..n -> Classes] : n \in 0..MaxLen}
  /\ cur = 1 /\ toks = <<>>
  /\ st = IF Len(cs) = 0 THEN "err" ELSE "scan"   \* Scanner.__init__ refuses ''

Peek(k) == At(cs, cur + k)
Emit(kind, stop) == toks' = Append(toks, <<kind, cur, stop>>) /\ cur' = stop + 1 /\ UNCHANGED <<cs, st>>
Scanning == st = "scan" /\ cur <= Len(cs)

Blank == Scanning /\ Peek(0) = "s" /\ cur' = cur + 1 /\ UNCHANGED <<cs, toks, st>>
\* char(): runs to the closing quote; at the end of input -> 'Unterminated string.'
Quote ==
  /\ Scanning /\ Peek(0) \in {"q", "Q"}
  /\ LET j == Find(cs, cur + 1, IF QuoteStrict THEN {Peek(0)} ELSE {"q", "Q"}) IN
       IF j = 0 THEN st' = "err" /\ UNCHANGED <<cs, cur, toks>> ELSE Emit("STRING", j)
\* backquote(): advance() past the end raises IndexError
BackQuote ==
  /\ Scanning /\ Peek(0) = "b"
  /\ LET j == Find(cs, cur + 1, {"b"}) IN
       IF j = 0 THEN st' = "err" /\ UNCHANGED <<cs, cur, toks>> ELSE Emit("BQNAME", j)
Dot ==
  /\ Scanning /\ Peek(0) = "."
  /\ IF Peek(1) = "d" THEN Emit("NUMBER", RunEnd(cs, cur + 1, {"d"})) ELSE Emit("PERIOD", cur)
TwoCharOp ==
  /\ Scanning /\ Peek(0) \in {"*", "/", "=", "!", "<"}
  /\ LET c == Peek(0)
         second == IF c \in {"*", "/"} THEN c ELSE "="
         one == CASE c = "*" -> "STAR" [] c = "/" -> "SLASH" [] c = "=" -> "EQUAL" [] c = "!" -> "BANG" [] OTHER -> "CMP"
         two == CASE c = "*" -> "STAR_STAR" [] c = "/" -> "SLASH_SLASH" [] c = "=" -> "EQUAL_EQUAL" [] c = "!" -> "BANG_EQUAL" [] OTHER -> "CMP_EQUAL"
     IN IF Peek(1) = second THEN Emit(two, cur + 1) ELSE Emit(one, cur)
Number ==
  /\ Scanning /\ Peek(0) = "d"
  /\ LET e == RunEnd(cs, cur, {"d"}) IN
       IF At(cs, e + 1) = "." /\ At(cs, e + 2) = "d" THEN Emit("NUMBER", RunEnd(cs, e + 2, {"d"})) ELSE Emit("NUMBER", e)
Ident == Scanning /\ Peek(0) = "a" /\ Emit("IDENTIFIER", RunEnd(cs, cur, Word))
Punct == Scanning /\ Peek(0) \in {"p", "~"} /\ Emit(IF Peek(0) = "~" THEN "TILDE" ELSE "PUNCT", cur)
Bad == Scanning /\ Peek(0) \in {"_", "@"} /\ st' = "err" /\ UNCHANGED <<cs, cur, toks>>
EndOfInput == st = "scan" /\ cur > Len(cs) /\ st' = "post" /\ UNCHANGED <<cs, cur, toks>>
TildeCheck ==
  /\ st = "post"
  /\ IF Cardinality(Tildes(toks)) > 1 THEN st' = "err" /\ UNCHANGED <<cs, cur, toks>>
     ELSE st' = "ok" /\ toks' = WithIntercept(toks) /\ UNCHANGED <<cs, cur>>

Next == Blank \/ Quote \/ BackQuote \/ Dot \/ TwoCharOp \/ Number \/ Ident \/ Punct \/ Bad \/ EndOfInput \/ TildeCheck
Spec == Init /\ [][Next]_vars

(* ------------------------------ theorems -------------------------------- *)
Terminal == st \in {"ok", "err"}
\* Impl refines Abs: whatever is accepted is the Abs tokenisation (the verdict direction of C01) ...
Sound == st = "ok" => LET a == AbsTokens(cs) IN a.ok /\ toks = a.toks
\* ... and nothing the Abs layer accepts is refused (not demanded by C01; holds for the repaired tree)
Complete == st = "err" => ~AbsTokens(cs).ok
\* nothing is dropped: the lexemes of the tokens and the blanks tile the input
Covered(k) == \E t \in 1..Len(toks) : toks[t][2] <= k /\ k <= toks[t][3]
Lossless == st = "ok" => \A k \in 1..Len(cs) : cs[k] = "s" \/ Covered(k)
NoOverlap == \A t \in 1..Len(toks) : toks[t][2] <= toks[t][3] /\ (t > 1 => toks[t - 1][3] < toks[t][2] \/ toks[t][2] = 0 \/ toks[t - 1][2] = 0)
AtMostOneTilde == st = "ok" => Cardinality(Tildes(toks)) <= 1
\* scanning progresses: every non-terminal state has a successor (no stuck scanner)
Progress == (~Terminal) => ENABLED Next
\* whitespace: inserting one blank between two tokens never changes the kinds
InsertBlankAt(k) == SubSeq(cs, 1, k) \o <<"s">> \o SubSeq(cs, k + 1, Len(cs))
BlankNeutral ==
  st = "ok" => \A t \in 1..Len(toks) : toks[t][2] = 0 \/
      LET a == AbsTokens(InsertBlankAt(toks[t][3])) IN a.ok /\ Kinds(a.toks) = Kinds(toks)
=============================================================================
