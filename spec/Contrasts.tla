------------------------------ MODULE Contrasts ------------------------------
(***************************************************************************)
(* Redundancy analysis: which categorical factors of which terms are coded *)
(* with all their levels (full) and which with one level less (reduced).   *)
(* Properties C03, C05 (effect side), C13 (interchangeability).            *)
(*                                                                         *)
(* A term is a sequence of factor names; factors in CatF are categorical,  *)
(* the others numeric.  A family is a sequence of terms (distinct as sets) *)
(* plus the intercept flag.                                                *)
(*                                                                         *)
(* Abs layer (atom theory).  On complete factorial data R^{n_f} = 1 + C_f  *)
(* for every categorical factor, and the spaces                            *)
(*      A(N, T) = (numeric monomial N) (x) (x)_{f in T} C_f                *)
(* are independent.  A term with numeric part N and categorical factors S, *)
(* coded with all indicators, spans the sum of A(N, T), T subset of S; a   *)
(* block coded full on P and reduced on M = S \ P spans the sum of         *)
(* A(N, M u Q), Q subset of P.  Hence the design has full column rank and  *)
(* spans exactly the model space iff every required atom is covered        *)
(* exactly once and nothing else is covered.                               *)
(*                                                                         *)
(* Impl layer: formulae/contrasts.py (patsy's pick_contrast with the       *)
(* shared used_subterms and the absorb loop) and Model._get_encoding_      *)
(* groups / add_extra_terms / eval of formulae/terms/terms.py.             *)
(***************************************************************************)
EXTENDS Naturals, Sequences, FiniteSets, SequencesExt, TLC

CONSTANTS CatF,          \* categorical factor names
          SortByDegree,  \* TRUE: terms are analysed in order of increasing number of factors (repaired tree)
          IterateExtra,  \* TRUE: extra terms are added until every term has a single coding (repaired tree)
          NumericBySet   \* TRUE: the numeric part of an interaction is recognised as a set of factors (repaired tree)

IsCat(f) == f \in CatF
Cats(t) == SelectSeq(t, LAMBDA f : IsCat(f))
Nums(t) == SelectSeq(t, LAMBDA f : ~IsCat(f))
SetOf(s) == {s[k] : k \in 1..Len(s)}
ICPT == <<"1">>      \* the intercept as a pseudo term

(* ------------------------------ Abs ------------------------------------- *)
Atom(N, T) == <<N, T>>
ReqAtoms(terms, icpt) ==
  UNION { { Atom(SetOf(Nums(t)), T) : T \in SUBSET SetOf(Cats(t)) } : t \in SetOf(terms) }
  \cup (IF icpt THEN {Atom({}, {})} ELSE {})
\* atoms covered by one column block: term t with the set P of its categorical factors coded full
Covers(t, P) == { Atom(SetOf(Nums(t)), (SetOf(Cats(t)) \ P) \cup Q) : Q \in SUBSET P }
\* a coding assigns to every term of the final model its set of full-coded factors;
\* blocks: sequence of <<term, P>>
CoverCount(blocks, a) == Cardinality({k \in 1..Len(blocks) : a \in Covers(blocks[k][1], blocks[k][2])})
ExactCover(blocks, terms, icpt) ==
  LET req == ReqAtoms(terms, icpt)
      cov == UNION {Covers(blocks[k][1], blocks[k][2]) : k \in 1..Len(blocks)}
  IN cov = req /\ \A a \in req : CoverCount(blocks, a) = 1

(* ------------------------------ Impl ------------------------------------ *)
\* _sorted_subsets: all subsets of the positions 1..n by size, then lexicographically
SubsetLess(a, b) ==
  \/ Cardinality(a) < Cardinality(b)
  \/ (Cardinality(a) = Cardinality(b) /\ a # b /\
      LET d == (a \ b) \cup (b \ a)
          m == CHOOSE x \in d : \A y \in d : x <= y
      IN m \in a)
SortedSubsets(n) == SetToSortSeq(SUBSET (1..n), SubsetLess)

\* a subterm is a set of <<factor, includes_intercept>>
CanAbsorb(long, short) == Cardinality(long) = Cardinality(short) + 1 /\ short \subseteq long
\* first (short_i, long_i) in the loop order of ExpandedTerm._simplify_subterm; <<0, 0>> if none
FirstAbsorb(subs) ==
  LET pairs == {<<a, b>> \in (1..Len(subs)) \X (1..Len(subs)) : a < b /\ CanAbsorb(subs[b], subs[a])}
  IN IF pairs = {} THEN <<0, 0>>
     ELSE CHOOSE p \in pairs : \A q \in pairs : p[1] < q[1] \/ (p[1] = q[1] /\ p[2] <= q[2])
RECURSIVE Simplify(_)
Simplify(subs) ==
  LET p == FirstAbsorb(subs) IN
    IF p = <<0, 0>> THEN subs
    ELSE LET short == subs[p[1]]
             long == subs[p[2]]
             dd == CHOOSE x \in long \ short : TRUE
         IN IF dd[2] THEN << {<<"AssertionError", TRUE>>} >>      \* assert not efactor.includes_intercept
            ELSE LET new == short \cup {<<dd[1], TRUE>>}
                     repl == [subs EXCEPT ![p[2]] = new]
                 IN Simplify(SubSeq(repl, 1, p[1] - 1) \o SubSeq(repl, p[1] + 1, Len(repl)))
\* ExpandedTerm.pick_contrast: returns [codings, used]
PickContrast(comps, used) ==
  LET ss == SortedSubsets(Len(comps))
      all == [k \in 1..Len(ss) |-> { <<comps[p], FALSE>> : p \in ss[k] }]
      fresh == SelectSeq(all, LAMBDA s : s \notin used)
  IN [codings |-> Simplify(fresh), used |-> used \cup SetOf(fresh)]
\* pick_contrasts over one group (sequence of <<key, comps>>): sequence of <<key, codings>>
RECURSIVE PickGroup(_, _, _)
PickGroup(group, k, used) ==
  IF k > Len(group) THEN <<>>
  ELSE LET r == PickContrast(group[k][2], used)
       IN << <<group[k][1], r.codings>> >> \o PickGroup(group, k + 1, r.used)

\* Model._get_encoding_groups on the list of common terms (ICPT included where it stands)
StableByLen(ts) ==
  LET RECURSIVE Ins(_, _)
      Ins(acc, t) == \* insert t after the last element with Len <= Len(t)
        LET pos == Cardinality({k \in 1..Len(acc) : Len(acc[k]) <= Len(t)}) IN
          SubSeq(acc, 1, pos) \o <<t>> \o SubSeq(acc, pos + 1, Len(acc))
      RECURSIVE Go(_, _)
      Go(acc, k) == IF k > Len(ts) THEN acc ELSE Go(Ins(acc, ts[k]), k + 1)
  IN Go(<<>>, 1)
InterceptFirst(ts) ==
  IF ICPT \in SetOf(ts) THEN <<ICPT>> \o SelectSeq(ts, LAMBDA t : t # ICPT) ELSE ts
AnalysisOrder(ts) ==
  LET a == InterceptFirst(ts)
      body == SelectSeq(a, LAMBDA t : t # ICPT)
  IN IF SortByDegree THEN (IF ICPT \in SetOf(ts) THEN <<ICPT>> ELSE <<>>) \o StableByLen(body) ELSE a
CategoricGroup(ts) ==
  LET pick == SelectSeq(ts, LAMBDA t : t = ICPT \/ (Nums(t) = <<>> /\ Cats(t) # <<>>))
  IN [k \in 1..Len(pick) |-> IF pick[k] = ICPT THEN <<ICPT, <<>>>> ELSE <<pick[k], pick[k]>>]
\* put key |-> comps into an ordered dictionary (sequence of pairs): assignment keeps the position of an existing key
DictSet(dct, key, val) ==
  IF \E k \in 1..Len(dct) : dct[k][1] = key
  THEN [k \in 1..Len(dct) |-> IF dct[k][1] = key THEN <<key, val>> ELSE dct[k]]
  ELSE Append(dct, <<key, val>>)
RECURSIVE NumericGroups(_, _, _, _)
\* sets: sequence of numeric sets; groups: parallel sequence of dictionaries
NumericGroups(ts, k, sets, groups) ==
  IF k > Len(ts) THEN groups
  ELSE LET t == ts[k] IN
    IF t = ICPT \/ Len(t) < 2 \/ Cats(t) = <<>> \/ Nums(t) = <<>> THEN NumericGroups(ts, k + 1, sets, groups)
    ELSE LET ns == SetOf(Nums(t))
             known == \E q \in 1..Len(sets) : sets[q] = ns
             sets2 == IF known THEN sets ELSE Append(sets, ns)
             groups1 == IF known THEN groups ELSE Append(groups, <<>>)
             idx == CHOOSE q \in 1..Len(sets2) : sets2[q] = ns
             \* "prevent full encoding when the numeric part is present outside": matched by NAME
             same == SelectSeq(ts, LAMBDA a : a # ICPT /\ Cats(a) = <<>> /\ SetOf(a) = ns)
             g1 == IF NumericBySet
                   THEN (IF same = <<>> THEN groups1[idx] ELSE DictSet(groups1[idx], same[1], <<>>))
                   ELSE (IF Nums(t) \in SetOf(ts) THEN DictSet(groups1[idx], Nums(t), <<>>) ELSE groups1[idx])
             g2 == DictSet(g1, t, Cats(t))
         IN NumericGroups(ts, k + 1, sets2, [groups1 EXCEPT ![idx] = g2])
EncodingGroups(ts) ==
  LET o == AnalysisOrder(ts) IN <<CategoricGroup(o)>> \o NumericGroups(o, 1, <<>>, <<>>)
\* _get_encoding_bools: one dictionary name -> codings (later groups override earlier keys)
RECURSIVE MergeDicts(_, _)
MergeDicts(acc, more) == IF more = <<>> THEN acc ELSE MergeDicts(DictSet(acc, more[1][1], more[1][2]), Tail(more))
RECURSIVE Flat(_)
Flat(ss) == IF ss = <<>> THEN <<>> ELSE ss[1] \o Flat(Tail(ss))
EncodingBools(ts) ==
  LET gs == EncodingGroups(ts)
      picked == Flat([k \in 1..Len(gs) |-> PickGroup(gs[k], 1, {})])
  IN MergeDicts(<<>>, picked)
Lookup(dct, key) == IF \E k \in 1..Len(dct) : dct[k][1] = key
                    THEN (LET k == CHOOSE k \in 1..Len(dct) : dct[k][1] = key IN <<TRUE, dct[k][2]>>)
                    ELSE <<FALSE, <<>>>>

\* create_extra_term: the categorical factors named in the sub-encoding (in the term's order)
\* followed by the term's numeric factors
ExtraTerm(t, coding) ==
  SelectSeq(t, LAMBDA f : IsCat(f) /\ \E x \in coding : x[1] = f) \o Nums(t)
\* Model.add_extra_terms: one pass over the terms present at its start
AddExtra(ts, enc) ==
  Flat([k \in 1..Len(ts) |->
          LET r == Lookup(enc, ts[k]) IN
            IF r[1] /\ Len(r[2]) > 1
            THEN [j \in 1..(Len(r[2]) - 1) |-> ExtraTerm(ts[k], r[2][j])] \o <<ts[k]>>
            ELSE <<ts[k]>>])
NeedsExtra(ts, enc) == \E k \in 1..Len(ts) : LET r == Lookup(enc, ts[k]) IN r[1] /\ Len(r[2]) > 1
RECURSIVE ExtraLoop(_, _)
ExtraLoop(ts, fuel) ==
  LET enc == EncodingBools(ts) IN
    IF fuel = 0 \/ ~NeedsExtra(ts, enc) THEN ts ELSE ExtraLoop(AddExtra(ts, enc), fuel - 1)
\* Model.eval up to the per-term encoding: [status, blocks]
\*   blocks: per distinct term name of the final list <<term, set of full-coded factors>>
Dedup(s) == LET keep == {k \in 1..Len(s) : \A j \in 1..(k - 1) : s[j] # s[k]}
                idx == SetToSortSeq(keep, LAMBDA a, b : a < b)
            IN [q \in 1..Len(idx) |-> s[idx[q]]]
ImplCoding(terms, icpt) ==
  LET ts0 == (IF icpt THEN <<ICPT>> ELSE <<>>) \o terms
      ts1 == IF IterateExtra THEN ExtraLoop(ts0, 6) ELSE AddExtra(ts0, EncodingBools(ts0))
      enc == EncodingBools(ts1)
      names == Dedup(ts1)       \* CommonEffectsMatrix keys its terms by name
      bad == \E k \in 1..Len(names) : LET r == Lookup(enc, names[k]) IN r[1] /\ r[2] = <<>>
      assertion == \E k \in 1..Len(enc) : \E j \in 1..Len(enc[k][2]) : <<"AssertionError", TRUE>> \in enc[k][2][j]
  IN IF assertion THEN [status |-> "AssertionError", blocks |-> <<>>, terms |-> ts1]
     ELSE IF bad THEN [status |-> "IndexError", blocks |-> <<>>, terms |-> ts1]   \* encodings[name][0] on an empty list
     ELSE [status |-> "ok",
           terms |-> ts1,
           blocks |-> [k \in 1..Len(names) |->
                         LET r == Lookup(enc, names[k])
                             full == IF r[1] THEN {x[1] : x \in {y \in r[2][1] : y[2]}} ELSE {}
                         IN IF names[k] = ICPT THEN <<<<>>, {}>> ELSE <<names[k], full>>]]
\* Group-specific terms: the code does not run the analysis on the effect side; it codes every
\* effect reduced iff the group intercept of the same factor is present, and full otherwise.
\* KF_C05_effect_coding is the set of effect-side families on which that rule is not exact.
SimpleEffectBlocks(terms, icpt) ==
  (IF icpt THEN << <<<<>>, {}>> >> ELSE <<>>) \o
  [k \in 1..Len(terms) |-> <<terms[k], IF icpt THEN {} ELSE SetOf(Cats(terms[k]))>>]
SimpleRuleExact(terms, icpt) == ExactCover(SimpleEffectBlocks(terms, icpt), terms, icpt)
\* the verdict on the modelled algorithm
ImplExact(terms, icpt) ==
  LET r == ImplCoding(terms, icpt) IN r.status = "ok" /\ ExactCover(r.blocks, terms, icpt)
=============================================================================
