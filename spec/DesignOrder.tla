------------------------------ MODULE DesignOrder ------------------------------
(***************************************************************************)
(* Impl-level model of how an interaction term gets its columns and its    *)
(* labels (C04): two separate pieces of code with their own ordering       *)
(* conventions.                                                            *)
(*   data:   reduce(get_interaction_matrix, [c.value for c in components])  *)
(*           get_interaction_matrix(x, y): for j1 in columns(x):           *)
(*                                           for j2 in columns(y): x[:,j1]*y[:,j2] *)
(*   labels: itertools.product over the label lists of the components            *)
(*   group:  khatri_rao(Ji.T, Xi.T).T  -- group slowest, effect fastest;   *)
(*           labels [f"{level}|{group}" for group in groups for level in levels] *)
(* A column is identified by the tuple of per-component column indexes it  *)
(* multiplies.  Theorem: both conventions enumerate the same tuples in the *)
(* same order, for every number of components and all widths.              *)
(***************************************************************************)
EXTENDS Naturals, Sequences, FiniteSets, TLC, Json, IOUtils, CSV
CONSTANTS MaxComps, MaxWidth, DoExport
VARIABLE widths          \* widths[c] = number of columns of component c
Init == widths \in UNION {[1..n -> 1..MaxWidth] : n \in 1..MaxComps}
Next == UNCHANGED widths
Spec == Init /\ [][Next]_widths

\* get_interaction_matrix on index tuples: x outer (slow), y inner (fast)
Interact(xs, w) == [k \in 1..(Len(xs) * w) |-> Append(xs[((k - 1) \div w) + 1], ((k - 1) % w) + 1)]
RECURSIVE Fold(_, _)
\* reduce(...) from the left over components k..n, starting with the tuples acc
Fold(acc, k) == IF k > Len(widths) THEN acc ELSE Fold(Interact(acc, widths[k]), k + 1)
DataColumns == Fold([j \in 1..widths[1] |-> <<j>>], 2)

\* itertools.product: the first iterable varies slowest
RECURSIVE Product(_)
Product(k) ==
  IF k > Len(widths) THEN << <<>> >>
  ELSE LET rest == Product(k + 1) IN
         [j \in 1..(widths[k] * Len(rest)) |-> <<((j - 1) \div Len(rest)) + 1>> \o rest[((j - 1) % Len(rest)) + 1]]
LabelTuples == Product(1)

SameOrder == DataColumns = LabelTuples
AllDistinct == Cardinality({DataColumns[k] : k \in 1..Len(DataColumns)}) = Len(DataColumns)

\* group-specific block: khatri_rao(J', X')' has column (g, e) at position (g-1)*ne + e; labels loop groups outer, levels inner
KhatriRao(ng, ne) == [k \in 1..(ng * ne) |-> <<((k - 1) \div ne) + 1, ((k - 1) % ne) + 1>>]
GroupLabelsOrder(ng, ne) == [k \in 1..(ng * ne) |-> <<((k - 1) \div ne) + 1, ((k - 1) % ne) + 1>>]
GroupOrder == \A ng \in 1..MaxWidth, ne \in 1..MaxWidth : KhatriRao(ng, ne) = GroupLabelsOrder(ng, ne)
Export == DoExport => CSVWrite("%1$s", <<ToJson([widths |-> widths, data |-> DataColumns, labels |-> LabelTuples])>>, IOEnv.FV_OUT)
=============================================================================
