----------------------------- MODULE Helpers_MC -----------------------------
(* Small-scope check of Helpers and export of every terminal case (S->C).     *)
EXTENDS Helpers, Json, IOUtils, CSV
CONSTANT DoExport
NoneDef == 99    \* cfg: None <- NoneDef
Case == [h |-> cfg.h, x |-> cfg.x, x2 |-> cfg.x2, arg |-> cfg.arg, new |-> cfg.new,
         refused |-> AbsRefused(cfg),
         train |-> IF AbsRefused(cfg) THEN <<>> ELSE AbsTrain(cfg),
         pred |-> IF AbsRefused(cfg) THEN <<>> ELSE AbsNew(cfg),
         success |-> IF cfg.h = "binary" THEN AbsSuccess(cfg) ELSE 99]
Export == (DoExport /\ Terminal) => CSVWrite("%1$s", <<ToJson(Case)>>, IOEnv.FV_OUT)
=============================================================================
