SPECIFICATION Spec
CONSTANTS
  MaxN = 8
  DoExport = FALSE
INVARIANT TreatmentValid
INVARIANT SumValid
INVARIANT Export
CHECK_DEADLOCK FALSE
