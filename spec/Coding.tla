------------------------------- MODULE Coding -------------------------------
(***************************************************************************)
(* Contrast codings (C13).  A coding of n levels is an n x k integer       *)
(* matrix (row = level) with k labels (labels are level numbers; 0 is the  *)
(* label "mean").                                                          *)
(* Abs: the validity predicates of the property statement, with ranks      *)
(* computed by exact fraction-free elimination.                            *)
(* Impl: the constructions of formulae/categorical.py (np.eye / vstack /   *)
(* column_stack) as index formulas.                                        *)
(***************************************************************************)
EXTENDS Integers, Sequences, FiniteSets, TLC

(* ---- exact rank (Bareiss, fraction free) of a matrix given as a sequence of rows ---- *)
NRows(m) == Len(m)
NCols(m) == IF m = <<>> THEN 0 ELSE Len(m[1])
SwapRows(m, a, b) == [m EXCEPT ![a] = m[b], ![b] = m[a]]
RECURSIVE RankFrom(_, _, _, _)
\* r: number of pivots found so far; c: current column; prev: previous pivot
RankFrom(m, r, c, prev) ==
  IF c > NCols(m) \/ r = NRows(m) THEN r
  ELSE LET cand == {i \in (r + 1)..NRows(m) : m[i][c] # 0} IN
    IF cand = {} THEN RankFrom(m, r, c + 1, prev)
    ELSE LET p == CHOOSE i \in cand : \A j \in cand : i <= j
             m1 == SwapRows(m, r + 1, p)
             piv == m1[r + 1][c]
             m2 == [i \in 1..NRows(m1) |->
                      IF i <= r + 1 THEN m1[i]
                      ELSE [j \in 1..NCols(m1) |->
                              IF j <= c THEN 0
                              ELSE (m1[i][j] * piv - m1[i][c] * m1[r + 1][j]) \div prev]]
         IN RankFrom(m2, r + 1, c + 1, piv)
Rank(m) == IF m = <<>> THEN 0 ELSE RankFrom(m, 0, 1, 1)
WithConstant(m) == [i \in 1..NRows(m) |-> <<1>> \o m[i]]

(* ------------------------------ Abs ------------------------------------- *)
\* reduced treatment coding with reference level ref
TreatmentReducedOK(n, ref, m, labels) ==
  /\ NRows(m) = n /\ NCols(m) = n - 1 /\ Len(labels) = n - 1
  /\ labels = [j \in 1..(n - 1) |-> IF j < ref THEN j ELSE j + 1]      \* the levels other than ref, in order
  /\ \A i \in 1..n : \A j \in 1..(n - 1) : m[i][j] = IF i = labels[j] THEN 1 ELSE 0   \* level indicators
  /\ \A j \in 1..(n - 1) : m[ref][j] = 0
  /\ Rank(WithConstant(m)) = n
\* full treatment coding: all level indicators
TreatmentFullOK(n, m, labels) ==
  /\ NRows(m) = n /\ NCols(m) = n /\ labels = [j \in 1..n |-> j]
  /\ \A i \in 1..n : \A j \in 1..n : m[i][j] = IF i = j THEN 1 ELSE 0
  /\ Rank(m) = n
\* reduced sum coding with omitted level omit
SumReducedOK(n, omit, m, labels) ==
  /\ NRows(m) = n /\ NCols(m) = n - 1
  /\ labels = [j \in 1..(n - 1) |-> IF j < omit THEN j ELSE j + 1]
  /\ \A j \in 1..(n - 1) : m[omit][j] = -1
  /\ \A i \in (1..n) \ {omit} : \A j \in 1..(n - 1) : m[i][j] = IF i = labels[j] THEN 1 ELSE 0
  /\ \A j \in 1..(n - 1) : LET RECURSIVE S(_)
                               S(i) == IF i = 0 THEN 0 ELSE m[i][j] + S(i - 1)
                           IN S(n) = 0                                   \* columns add up to zero
  /\ Rank(WithConstant(m)) = n
\* full sum coding: spans all level indicators (constant + reduced)
SumFullOK(n, omit, m, labels) ==
  /\ NRows(m) = n /\ NCols(m) = n
  /\ labels = <<0>> \o [j \in 1..(n - 1) |-> IF j < omit THEN j ELSE j + 1]
  /\ Rank(m) = n
  /\ \A i \in 1..n : m[i][1] = 1

(* ------------------------------ Impl ------------------------------------ *)
Eye(k) == [i \in 1..k |-> [j \in 1..k |-> IF i = j THEN 1 ELSE 0]]
ZeroRow(k) == [j \in 1..k |-> 0]
\* Treatment.code_without_intercept: vstack(eye[:ref], zeros, eye[ref:])   (ref 1-based here)
ImplTreatmentReduced(n, ref) ==
  LET e == Eye(n - 1) IN
    [m |-> SubSeq(e, 1, ref - 1) \o <<ZeroRow(n - 1)>> \o SubSeq(e, ref, n - 1),
     labels |-> [j \in 1..(n - 1) |-> IF j < ref THEN j ELSE j + 1]]
ImplTreatmentFull(n) == [m |-> Eye(n), labels |-> [j \in 1..n |-> j]]
\* Sum._sum_contrast: out[:omit] = eye[:omit]; out[omit] = -1; out[omit+1:] = eye[omit:]
ImplSumReduced(n, omit) ==
  LET e == Eye(n - 1) IN
    [m |-> SubSeq(e, 1, omit - 1) \o <<[j \in 1..(n - 1) |-> -1]>> \o SubSeq(e, omit, n - 1),
     labels |-> [j \in 1..(n - 1) |-> IF j < omit THEN j ELSE j + 1]]
ImplSumFull(n, omit) ==
  LET r == ImplSumReduced(n, omit) IN
    [m |-> [i \in 1..n |-> <<1>> \o r.m[i]], labels |-> <<0>> \o r.labels]
=============================================================================
