----------------------------- MODULE PyExpr_Trace -----------------------------
(* Judge for call arguments evaluated by the real code (C->S):                                *)
(* event = [id, toks (kinds of the argument text), got (the operator tree the user function   *)
(* received, in Grammar's encoding without grouping nodes), ok (evaluation succeeded)]        *)
(* The expected tree is Python's (PyParse), computed here.                                    *)
EXTENDS PyExpr, Json, IOUtils
VARIABLES i, nbad
Ev == ndJsonDeserialize(IOEnv.FV_TRACE)
Clause(e) ==
  LET py == PyParse(e.toks) IN
    IF ~py.ok THEN "ood"
    ELSE IF ~e.ok THEN "python_expression_rejected"
    ELSE IF ToJson(Strip(py.t)) # ToJson(e.got) THEN "evaluated_tree_differs_from_python"
    ELSE "none"
Init == i = 1 /\ nbad = 0
Step ==
  /\ i <= Len(Ev)
  /\ LET c == Clause(Ev[i]) IN
       /\ (c \notin {"none", "ood"}) => PrintT(<<"FV", "bad", Ev[i].id, c, PowIssue(PyParse(Ev[i].toks).t)>>)
       /\ (c = "ood") => PrintT(<<"FV", "ood", Ev[i].id>>)
       /\ nbad' = IF c \in {"none", "ood"} THEN nbad ELSE nbad + 1
  /\ i' = i + 1
Spec == Init /\ [][Step]_<<i, nbad>>
Consumed == TLCGet("stats").diameter = Len(Ev) + 1 /\ PrintT(<<"FV", "done", Len(Ev)>>)
=============================================================================
