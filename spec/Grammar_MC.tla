----------------------------- MODULE Grammar_MC -----------------------------
(* Exhaustive check of Grammar over every token string of length <= MaxLen over Kinds.     *)
(* One state per token string; the invariants are the spec-level theorems; Export writes    *)
(* one case per string for replay into formulae (S->C).                                     *)
EXTENDS Grammar, Json, IOUtils, CSV
CONSTANTS Kinds, MaxLen, DoExport
VARIABLE ts
vars == <<ts>>

Init == ts = <<>>
Extend == Len(ts) < MaxLen /\ \E k \in Kinds : ts' = Append(ts, k)
Next == Extend
Spec == Init /\ [][Next]_vars

\* the token string the scanner hands to the parser: implicit '1 +' after '~' or in front
WithIntercept(s) ==
  LET idx == {k \in 1..Len(s) : s[k] = "TILDE"} IN
    IF idx = {} THEN <<"NUMBER", "PLUS">> \o s
    ELSE LET k == CHOOSE k \in idx : TRUE IN SubSeq(s, 1, k) \o <<"NUMBER", "PLUS">> \o SubSeq(s, k + 1, Len(s))
OneTilde(s) == Cardinality({k \in 1..Len(s) : s[k] = "TILDE"}) <= 1

(* ---- theorems ---- *)
\* the grammar is unambiguous: at most one tree per string
Unambiguous == Cardinality(Trees(ts)) <= 1
\* definition (b) produces only trees that are valid by definition (a), with the right yield
AbsConsistent == \A t \in Trees(ts) : IsTreeOf(t, ts)
\* parentheses around the whole sentence do not change the stripped tree
ParenNeutral == \A t \in Trees(ts) : Strip(<<"grp", t>>) = Strip(t)
\* Impl refines Abs: whatever the parser accepts is the grammar tree and all tokens are consumed
ImplSound ==
  LET r == ImplParse(ts) IN r.ok => (r.t \in Trees(ts) /\ r.cur = Len(ts) + 1)
\* ... and what it refuses although Abs has a tree is confined to the documented narrowings
\* (right operand of '~' and of '=' is an addition; subscript level is a name or a string)
RECURSIVE Narrowed(_)
Narrowed(t) ==
  CASE t[1] = "bin" /\ t[2] = "TILDE" -> Level(t[4]) < 4 \/ Narrowed(t[3]) \/ Narrowed(t[4])
    [] t[1] = "bin" -> Narrowed(t[3]) \/ Narrowed(t[4])
    [] t[1] = "assign" -> Level(t[3]) < 4 \/ Narrowed(t[2]) \/ Narrowed(t[3])
    [] t[1] = "sub" -> t[2] \notin {IdAtom, <<"atom", "STRING">>} \/ Narrowed(t[2])
    [] t[1] = "un" -> Narrowed(t[3])
    [] t[1] = "grp" -> Narrowed(t[2])
    [] t[1] = "call" -> Narrowed(t[2]) \/ \E k \in 1..Len(t[3]) : Narrowed(t[3][k])
    [] OTHER -> FALSE
ImplComplete ==
  LET r == ImplParse(ts) IN (~r.ok) => \A t \in Trees(ts) : Narrowed(t)

(* ---- export ---- *)
Case ==
  LET tr == Trees(ts)
      r == ImplParse(ts)
      wi == WithIntercept(ts)
  IN [ts |-> ts,
      inlang |-> tr # {},
      tree |-> IF tr # {} THEN CHOOSE t \in tr : TRUE ELSE <<>>,
      impl_ok |-> r.ok,
      impl_cur |-> r.cur,
      impl_tree |-> r.t,
      wi_inlang |-> OneTilde(ts) /\ InLanguage(wi)]
Export == DoExport => (Len(ts) = 0 \/ CSVWrite("%1$s", <<ToJson(Case)>>, IOEnv.FV_OUT))
=============================================================================
