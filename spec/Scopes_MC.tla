------------------------------ MODULE Scopes_MC ------------------------------
EXTENDS Scopes, Json, IOUtils, CSV
CONSTANT DoExport
Export == (DoExport /\ Done) => CSVWrite("%1$s", <<ToJson([cfg |-> cfg, winner |-> result, probes |-> ptr])>>, IOEnv.FV_OUT)
=============================================================================
