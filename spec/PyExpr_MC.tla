------------------------------ MODULE PyExpr_MC ------------------------------
(* Every argument token string up to MaxLen: Python's tree (Abs) against the formula parser's *)
(* tree (Impl).  Difference theorem: they differ exactly on the KF_C12_pow class.             *)
EXTENDS PyExpr, Json, IOUtils, CSV
CONSTANTS Kinds, MaxLen, DoExport
VARIABLE ts
Init == ts = <<>>
Next == Len(ts) < MaxLen /\ \E k \in Kinds : ts' = Append(ts, k)
Spec == Init /\ [][Next]_ts
Py == PyParse(ts)
Fm == ImplParse(ts)
\* every expression of the Python fragment is accepted by the formula parser
PythonAccepted == Py.ok => Fm.ok
\* ... and gets the same tree unless a ** has a ** or sign neighbour
DifferenceTheorem == (Py.ok /\ Fm.ok) => ((Py.t # Fm.t) <=> PowIssue(Py.t))
\* the Python tree consumes all tokens and is a tree over the same leaves
PyYield == Py.ok => Yield(Py.t, 1, ts) = ts
Case == [ts |-> ts, py_ok |-> Py.ok, py_tree |-> Py.t, f_ok |-> Fm.ok, f_tree |-> Fm.t,
         pow_issue |-> IF Py.ok THEN PowIssue(Py.t) ELSE FALSE]
Export == (DoExport /\ Len(ts) > 0 /\ (Py.ok \/ Fm.ok)) => CSVWrite("%1$s", <<ToJson(Case)>>, IOEnv.FV_OUT)
=============================================================================
