--------------------------- MODULE Transforms_Trace ---------------------------
(* Oracle mode for inputs chosen by the harness (C->S direction of C14): each event names a   *)
(* transform, a training vector, later data and parameters; the exact rational values are      *)
(* computed here and written to FV_OUT, where the harness compares them with the floats the     *)
(* real code returned (TLC has no floats: the comparison of a float with a rational is the only *)
(* step done outside).  The contracts are re-checked on every event.                           *)
EXTENDS Transforms, Json, IOUtils, CSV
VARIABLES i, nbad
Ev == ndJsonDeserialize(IOEnv.FV_TRACE)
Inside(x, y) == SelectSeq(y, LAMBDA v : InBounds(x, v))
InsideB(lb, ub, y) == SelectSeq(y, LAMBDA v : lb <= v /\ v <= ub)
Expected(e) ==
  CASE e.t = "center" -> [id |-> e.id, train |-> Center(e.x, e.x), new |-> Center(e.x, e.later), ok |-> CenterMeanZero(e.x)]
    [] e.t = "scale" -> [id |-> e.id, train |-> ScaleSq(e.x, e.x), new |-> ScaleSq(e.x, e.later),
                         sign |-> [k \in 1..Len(e.later) |-> Sign(Center(e.x, e.later)[k])], ok |-> ScaleUnitVariance(e.x)]
    [] e.t = "poly" -> [id |-> e.id, sq |-> [q \in 1..e.degree |-> PolySq(e.x, e.degree, q)],
                        sign |-> [q \in 1..e.degree |-> PolySign(e.x, e.degree, q)], ok |-> PolyOrthogonal(e.x, e.degree)]
    [] e.t = "bs" ->
         LET lb == Min(e.x) - e.lbo
             ub == Max(e.x) + e.ubo
             m == BSMatrixB(e.x, e.x, e.ninner, e.degree, e.intercept, lb, ub)
             m2 == BSMatrixB(e.x, InsideB(lb, ub, e.later), e.ninner, e.degree, e.intercept, lb, ub)
         IN [id |-> e.id, train |-> m, new |-> m2, later |-> InsideB(lb, ub, e.later), knots |-> InnerKnots(e.x, e.ninner),
             ok |-> BSNonNegative(m) /\ BSNonNegative(m2) /\ (e.intercept => (BSPartitionOfUnity(m) /\ BSPartitionOfUnity(m2)))]
Init == i = 1 /\ nbad = 0
Step ==
  /\ i <= Len(Ev)
  /\ LET r == Expected(Ev[i]) IN
       /\ CSVWrite("%1$s", <<ToJson(r)>>, IOEnv.FV_OUT)
       /\ (~r.ok) => PrintT(<<"FV", "bad", Ev[i].id, "contract_fails_on_the_spec">>)
       /\ nbad' = IF r.ok THEN nbad ELSE nbad + 1
  /\ i' = i + 1
Spec == Init /\ [][Step]_<<i, nbad>>
Consumed == TLCGet("stats").diameter = Len(Ev) + 1 /\ PrintT(<<"FV", "done", Len(Ev)>>)
=============================================================================
