------------------------------- MODULE Scopes -------------------------------
(***************************************************************************)
(* Name resolution (C11).  A name used inside a call is looked up in an    *)
(* ordered chain of scopes; the first scope that defines it wins.          *)
(*   argument:  data frame columns, built-in transforms/encodings,         *)
(*              locals of the selected caller frame, its globals,          *)
(*              extra_namespace                                            *)
(*   callee:    the same chain without the data frame; a dotted callee     *)
(*              resolves its first component by the chain and the rest by  *)
(*              attribute access                                           *)
(* env = k selects the k-th frame above the direct caller of               *)
(* design_matrices; locals and globals of other frames are never visible.  *)
(*                                                                         *)
(* State: the configuration under test (which scopes define the name,      *)
(* decoy definitions in frames that are not selected) and the lookup       *)
(* pointer; one action per probe of a scope, as the code does it           *)
(* (LazyVariable.eval: data first; VarLookupDict: dictionaries in order).  *)
(***************************************************************************)
EXTENDS Naturals, Sequences, FiniteSets, TLC

AllScopes == <<"data", "builtin", "locals", "globals", "extra">>
Chain(role) == IF role = "arg" THEN AllScopes ELSE SubSeq(AllScopes, 2, 5)
Roles == {"arg", "callee"}
\* how the name is written: an argument plain, back-quoted, as the value of a keyword argument or inside an
\* expression that is the value of a keyword argument;
\* a callee plain, dotted with three components (a.b.f) or with four (a.b.c.f)
Forms(role) == IF role = "arg" THEN {"plain", "backquoted", "keyword", "keyword_expr"} ELSE {"plain", "dotted", "dotted4"}
\* definitions that must never be seen: other frames' locals / globals, and the interpreter's own
\* built-in namespace (the probed name is spelled like a Python built-in such as max or abs)
Decoys == {"locals_other_frame", "globals_other_frame", "python_builtins"}

VARIABLES cfg,     \* [defined, decoys, role, form, env]
          ptr,     \* index of the scope probed next
          result   \* "" while searching, then the winning scope or "raise"
vars == <<cfg, ptr, result>>

Configs ==
  { [defined |-> d, decoys |-> x, role |-> r, form |-> f, env |-> k] :
      d \in SUBSET {AllScopes[j] : j \in 1..5}, x \in SUBSET Decoys, r \in Roles, f \in {"plain", "backquoted", "keyword", "keyword_expr", "dotted", "dotted4"}, k \in 0..3 }
ValidCfg(c) == c.form \in Forms(c.role) /\ (c.role = "callee" => "data" \notin c.defined)
Init == cfg \in {c \in Configs : ValidCfg(c)} /\ ptr = 1 /\ result = ""

Probe ==
  /\ result = "" /\ ptr <= Len(Chain(cfg.role))
  /\ IF Chain(cfg.role)[ptr] \in cfg.defined
     THEN result' = Chain(cfg.role)[ptr] /\ ptr' = ptr
     ELSE result' = "" /\ ptr' = ptr + 1
  /\ UNCHANGED cfg
Raise == result = "" /\ ptr > Len(Chain(cfg.role)) /\ result' = "raise" /\ UNCHANGED <<cfg, ptr>>
Next == Probe \/ Raise
Spec == Init /\ [][Next]_vars

(* ---- Abs: the documented order, stated without the machine ---- *)
Winner(c) ==
  LET ch == Chain(c.role)
      hits == {j \in 1..Len(ch) : ch[j] \in c.defined}
  IN IF hits = {} THEN "raise" ELSE ch[CHOOSE j \in hits : \A q \in hits : j <= q]
Done == result # ""
FirstMatchWins == Done => result = Winner(cfg)
\* definitions in frames that env does not select never matter
DecoysIrrelevant == Done => result = Winner([cfg EXCEPT !.decoys = {}])
\* a scope later in the chain never shadows an earlier one
NoShadowing == Done /\ result # "raise" =>
  \A j \in 1..Len(Chain(cfg.role)) : (Chain(cfg.role)[j] \in cfg.defined /\ Chain(cfg.role)[j] # result) =>
     \E q \in 1..(j - 1) : Chain(cfg.role)[q] = result
=============================================================================
