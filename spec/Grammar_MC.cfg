SPECIFICATION Spec
CONSTANTS
  EofCheck = TRUE
  MaxLen = 4
  DoExport = FALSE
  Kinds = {"IDENTIFIER", "NUMBER", "STRING", "LEFT_PAREN", "RIGHT_PAREN", "LEFT_BRACKET", "RIGHT_BRACKET", "LEFT_BRACE", "RIGHT_BRACE", "COMMA", "PLUS", "MINUS", "STAR", "SLASH", "STAR_STAR", "COLON", "PIPE", "TILDE", "EQUAL", "EQUAL_EQUAL", "BANG", "PERIOD"}
INVARIANT Unambiguous
INVARIANT AbsConsistent
INVARIANT ParenNeutral
INVARIANT ImplSound
INVARIANT ImplComplete
INVARIANT Export
CHECK_DEADLOCK FALSE
