---------------------------- MODULE Grammar_Trace ----------------------------
(* Judge for recorded parses of the real code (C->S).  One event per line of the ndjson     *)
(* file named by the environment variable FV_TRACE:                                         *)
(*   id    sequence number                                                                   *)
(*   toks  kinds of the tokens handed to the parser, without EOF                             *)
(*   ok    Parser.parse returned                  tree  its projection (<<>> if not ok)     *)
(*   cur   Parser.current at return (0-based)     md_ok model_description accepted the text *)
(*   want  the tree the sentence was generated from (<<>> if unknown, e.g. mutated input)   *)
(*   calls every call of a Parser method observed with sys.setprofile, as                     *)
(*         <<level, Parser.current at entry, returned normally?, Parser.current at return>>    *)
(*         (0-based positions; <<>> when not recorded).  Each must be the step the Impl layer  *)
(*         takes from that position at that level: P(toks, cur, level) -- drift, not a verdict *)
(* Verdicts are total: every event gets a clause name; "none" means conforming.  Events are  *)
(* independent, so the trace machine has exactly one successor per consumed event.           *)
EXTENDS Grammar, Json, IOUtils
VARIABLES i, nbad
Ev == ndJsonDeserialize(IOEnv.FV_TRACE)

Clause(e) ==
  IF ~e.ok THEN (IF e.md_ok THEN "model_accepted_but_parser_rejected" ELSE "none")
  ELSE IF e.cur # Len(e.toks) THEN "left_over_tokens"
  ELSE IF ~Valid(e.tree) THEN "tree_violates_precedence_levels"
  ELSE IF Yield(e.tree, 1, e.toks) # e.toks THEN "tokens_ignored_or_invented"
  ELSE IF Len(e.want) > 0 /\ ToJson(e.tree) # ToJson(e.want) THEN "not_the_generating_tree"
  ELSE IF Len(e.toks) <= 7 /\ ~(e.tree \in Trees(e.toks)) THEN "not_in_tree_set"
  ELSE "none"

\* step-level conformance with the Impl layer (one spec operator per parser method)
StepDrift(e) ==
  LET te == e.toks \o <<"EOF">> IN
    \E k \in 1..Len(e.calls) :
      LET c == e.calls[k]
          r == P(te, c[2] + 1, c[1])
      IN r.ok # c[3] \/ (r.ok /\ r.cur # c[4] + 1)
Init == i = 1 /\ nbad = 0
Step ==
  /\ i <= Len(Ev)
  /\ LET c == Clause(Ev[i]) IN
       /\ (c # "none") => PrintT(<<"FV", "bad", Ev[i].id, c>>)
       /\ (Len(Ev[i].calls) > 0 /\ StepDrift(Ev[i])) => PrintT(<<"FV", "drift", Ev[i].id>>)
       /\ nbad' = IF c = "none" THEN nbad ELSE nbad + 1
  /\ i' = i + 1
Done == i = Len(Ev) + 1 /\ PrintT(<<"FV", "done", Len(Ev), nbad>>) /\ UNCHANGED <<i, nbad>>
Next == Step
Spec == Init /\ [][Next]_<<i, nbad>>
\* the whole trace was consumed
Consumed == TLCGet("stats").diameter = Len(Ev) + 1 /\ PrintT(<<"FV", "done", Len(Ev)>>)
=============================================================================
