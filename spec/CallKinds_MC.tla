---------------------------- MODULE CallKinds_MC ----------------------------
(* All (type, role, intercept) cases of CallKinds, checked and exported for replay (S->C).    *)
EXTENDS CallKinds, Json, IOUtils, CSV
CONSTANT DoExport
Case == [t |-> cfg.t, role |-> cfg.role, icpt |-> cfg.icpt, accepted |-> AbsAccepted(cfg),
         kind |-> AbsKind(cfg.t), coding |-> IF AbsAccepted(cfg) THEN AbsCoding(cfg) ELSE "-",
         order |-> IF AbsAccepted(cfg) THEN AbsOrder(cfg) ELSE "-",
         impl_refused |-> phase = "refused"]
Export == (DoExport /\ Terminal) => CSVWrite("%1$s", <<ToJson(Case)>>, IOEnv.FV_OUT)
=============================================================================
