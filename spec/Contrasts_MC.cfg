SPECIFICATION Spec
CONSTANTS
  CatF = {"f", "g", "h", "k"}
  SortByDegree = TRUE
  IterateExtra = TRUE
  NumericBySet = TRUE
  Factors <- FactorsDef4
  ExtraTerms <- NoExtra
  MaxArity = 3
  MaxTerms = 3
  DoExport = FALSE
INVARIANT Exact
INVARIANT AllFullCoversReq
INVARIANT Export
CHECK_DEADLOCK FALSE
