----------------------------- MODULE TermAlgebra -----------------------------
(***************************************************************************)
(* Denotation of model formulas (property C02): Wilkinson-Rogers / lme4    *)
(* set semantics.                                                          *)
(*                                                                         *)
(* Expression trees                                                        *)
(*   <<"v", a>>            atom (variable, call, back-quoted name)         *)
(*   <<"lit", 0>>, <<"lit", 1>>, <<"neg1">>   intercept literals 0, 1, -1  *)
(*   <<"one">>             the implicit '1' the scanner puts in front      *)
(*   <<"op", o, l, r>>     o in + - : * /                                  *)
(*   <<"pow", l, n>>       l ** n                                          *)
(*   <<"grp", e, g>>       (e | g)                                         *)
(* A term is the SET of its factors; the intercept is tracked separately   *)
(* as a marker because "1", "0", "-1" act in order of appearance.          *)
(*                                                                         *)
(* Abs layer: DT / DC / Den, written from the property statement.          *)
(* Impl layer: IOp / IEval, the operator overloads of                      *)
(* formulae/terms/terms.py transcribed class by class on ordered lists.    *)
(***************************************************************************)
EXTENDS Naturals, Sequences, FiniteSets, SequencesExt, TLC

(* ------------------------------ Abs ------------------------------------- *)
Inter(l, r) == { s \cup t : s \in l, t \in r }

RECURSIVE DT(_)
\* denotation of a term expression: a set of terms
DT(e) ==
  CASE e[1] = "v" -> {{e[2]}}
    [] e[1] = "op" ->
         LET l == DT(e[3])
             r == DT(e[4])
         IN (CASE e[2] = "+" -> l \cup r
               [] e[2] = "-" -> l \ r
               [] e[2] = ":" -> Inter(l, r)
               [] e[2] = "*" -> l \cup r \cup Inter(l, r)
               [] e[2] = "/" -> l \cup { (UNION l) \cup t : t \in r })
    [] e[1] = "pow" ->
         LET b == DT(e[2]) IN { UNION S : S \in { S \in SUBSET b : Cardinality(S) \in 1..e[3] } }

\* denotation of an additive chain of items (literals, term expressions, group terms):
\* terms, group terms <<effect, factor>>, and the last intercept marker seen
RECURSIVE DC(_)
DG(e) ==
  LET E == DC(e[2])
      F == DT(e[3])
  IN { <<t, f>> : t \in (E.terms \cup (IF E.im # "neg" THEN {{}} ELSE {})), f \in F }
DC(e) ==
  CASE e[1] = "lit" -> [terms |-> {}, groups |-> {}, im |-> IF e[2] = 1 THEN "pos" ELSE "neg"]
    [] e[1] = "neg1" -> [terms |-> {}, groups |-> {}, im |-> "neg"]
    [] e[1] = "one" -> [terms |-> {}, groups |-> {}, im |-> "pos"]
    [] e[1] = "grp" -> [terms |-> {}, groups |-> DG(e), im |-> "none"]
    [] e[1] = "op" /\ e[2] \in {"+", "-"} ->
         LET l == DC(e[3])
             r == DC(e[4])
         IN IF e[2] = "+"
            THEN [terms |-> l.terms \cup r.terms, groups |-> l.groups \cup r.groups,
                  im |-> IF r.im # "none" THEN r.im ELSE l.im]
            ELSE [terms |-> l.terms \ r.terms, groups |-> l.groups \ r.groups,
                  im |-> IF r.im = "pos" THEN "neg" ELSE l.im]
    [] OTHER -> [terms |-> DT(e), groups |-> {}, im |-> "none"]

\* the model described by a right-hand side: the intercept is present unless the last marker removes it
Den(f) == LET d == DC(f) IN [icpt |-> d.im # "neg", terms |-> d.terms, groups |-> d.groups]

\* effect sides that denote nothing ('(0|g)') are outside the documented language
RECURSIVE WellFormed(_)
WellFormed(e) ==
  CASE e[1] = "grp" -> LET E == DC(e[2]) IN (E.terms # {} \/ E.im # "neg") /\ DT(e[3]) # {}
    [] e[1] = "op" -> WellFormed(e[3]) /\ WellFormed(e[4])
    [] OTHER -> TRUE

\* does the chain contain a term (not only intercept literals)?
RECURSIVE HasTerm(_)
HasTerm(e) == CASE e[1] \in {"v", "pow", "grp"} -> TRUE [] e[1] = "op" -> HasTerm(e[3]) \/ HasTerm(e[4]) [] OTHER -> FALSE
\* '-' is only applied to chains that already contain a term ('1 - x', '0 - x' are not documented)
RECURSIVE MinusOnTerms(_)
MinusOnTerms(e) ==
  CASE e[1] = "op" -> (e[2] = "-" => HasTerm(e[3])) /\ MinusOnTerms(e[3]) /\ MinusOnTerms(e[4])
    [] e[1] = "pow" -> MinusOnTerms(e[2])
    [] e[1] = "grp" -> MinusOnTerms(e[2]) /\ MinusOnTerms(e[3])
    [] OTHER -> TRUE
\* the domain on which the property statement fixes the answer
InDomain(f) == WellFormed(f) /\ MinusOnTerms(f)

(* ------------------------------ Impl: formulae/terms/terms.py ------------ *)
(* Values: I Intercept, N NegatedIntercept, T(c) Term with the ORDERED list of its components,  *)
(* G(e,f) GroupSpecificTerm, M(ct,gt) Model with its ordered lists, X any exception.            *)
(* IOp transcribes the operator overloads class by class (Python's NotImplemented / missing     *)
(* method protocol ends in TypeError = X because no reflected operator is defined).             *)
(* sm = TRUE evaluates the algorithm with a:b and b:a identified (components kept in a          *)
(* canonical order): the repaired Term.__eq__/__hash__ (TermBySet = TRUE).  sm = FALSE is the    *)
(* pinned tree, where a term was the ordered list of its components; inputs on which the two   *)
(* disagree (OrderSensitive) were outside the judged domain before the repair.                  *)
CONSTANTS AtomOrder,    \* all atoms, as a sequence (canonical order for sm)
          HashBad,      \* atoms whose hash raises on the pinned tree (calls with literal arguments)
          HashBroken,   \* TRUE: pinned LazyValue.__hash__
          DivByTerms,   \* TRUE: repaired Model / Model (distributes over the terms of the right operand)
          MulShortcut,  \* TRUE: Model * Model returns self when both operands are equal (KF_C02_mul_equal_models)
          CtorDedup,    \* TRUE: repaired Model(*terms) keeps each term once
          TermBySet     \* TRUE: repaired Term.__eq__ / __hash__ compare the components as a set

I == [cls |-> "I"]
N == [cls |-> "N"]
X == [cls |-> "X"]
T(c) == [cls |-> "T", c |-> c]
G(e, f) == [cls |-> "G", e |-> e, f |-> f]
M(ct, gt) == [cls |-> "M", ct |-> ct, gt |-> gt]

InSeq(x, s) == \E k \in 1..Len(s) : s[k] = x
\* first occurrences, in order (not recursive: sequences can be long)
Dedup(s) ==
  LET keep == {k \in 1..Len(s) : \A j \in 1..(k - 1) : s[j] # s[k]}
      idx == SetToSortSeq(keep, LAMBDA a, b : a < b)
  IN [q \in 1..Len(idx) |-> s[idx[q]]]
Canon(c, sm) == IF sm THEN SelectSeq(AtomOrder, LAMBDA x : InSeq(x, c)) ELSE Dedup(c)
TJoin(a, b, sm) == T(Canon(a.c \o b.c, sm))
RemFirst(s, x) ==
  IF ~InSeq(x, s) THEN s
  ELSE LET k == CHOOSE k \in 1..Len(s) : s[k] = x /\ \A j \in 1..(k - 1) : s[j] # x
       IN SubSeq(s, 1, k - 1) \o SubSeq(s, k + 1, Len(s))
MK(terms) ==
  LET ts == IF CtorDedup THEN Dedup(terms) ELSE terms
  IN M(SelectSeq(ts, LAMBDA t : t.cls # "G"), SelectSeq(ts, LAMBDA t : t.cls = "G"))
AllT(s) == \A k \in 1..Len(s) : s[k].cls = "T"
Map(s, Op(_)) == [k \in 1..Len(s) |-> Op(s[k])]
RECURSIVE Flat(_)
Flat(ss) == IF ss = <<>> THEN <<>> ELSE ss[1] \o Flat(Tail(ss))

\* Model.add_term
AddTerm(m, t) ==
  IF m.cls = "X" THEN X
  ELSE IF t.cls = "G" THEN (IF InSeq(t, m.gt) THEN m ELSE M(m.ct, Append(m.gt, t)))
  ELSE IF t.cls \in {"T", "I"} THEN (IF InSeq(t, m.ct) THEN m ELSE M(Append(m.ct, t), m.gt))
  ELSE X
RECURSIVE AddAll(_, _)
AddAll(m, ts) == IF ts = <<>> THEN m ELSE AddAll(AddTerm(m, ts[1]), Tail(ts))
MAddM(m, o) == AddAll(m, o.ct \o o.gt)
RECURSIVE RemoveAll(_, _)
RemoveAll(m, ts) ==
  IF ts = <<>> THEN m
  ELSE RemoveAll(M(RemFirst(m.ct, ts[1]), RemFirst(m.gt, ts[1])), Tail(ts))
\* components of the Term members of common_terms (Model.common_components)
CC(m) == Flat(Map(SelectSeq(m.ct, LAMBDA t : t.cls = "T"), LAMBDA t : t.c))
TermSet(m) == {m.ct[k] : k \in 1..Len(m.ct)} \cup {m.gt[k] : k \in 1..Len(m.gt)}
RECURSIVE HasBad(_)
HasBad(t) ==
  CASE t.cls = "T" -> \E k \in 1..Len(t.c) : t.c[k] \in HashBad
    [] t.cls = "G" -> HasBad(t.e) \/ HasBad(t.f)
    [] OTHER -> FALSE
\* products of two term lists, first operand slowest (itertools.product)
Prod(as, bs, sm) == Flat(Map(as, LAMBDA a : Map(bs, LAMBDA b : TJoin(a, b, sm))))

IAdd(l, r) ==
  CASE l.cls = "I" ->
         (CASE r.cls = "N" -> MK(<<>>) [] r.cls = "I" -> l [] r.cls \in {"T", "G"} -> MK(<<l, r>>)
            [] r.cls = "M" -> MAddM(MK(<<l>>), r) [] OTHER -> X)
    [] l.cls = "N" ->
         (CASE r.cls = "N" -> l [] r.cls = "I" -> MK(<<>>) [] r.cls \in {"T", "G"} -> MK(<<l, r>>)
            [] r.cls = "M" -> MAddM(MK(<<l>>), r) [] OTHER -> X)
    [] l.cls = "T" ->
         IF l = r THEN l
         ELSE (CASE r.cls = "T" -> MK(<<l, r>>) [] r.cls = "M" -> MAddM(MK(<<l>>), r) [] OTHER -> X)
    [] l.cls = "M" ->
         (CASE r.cls = "N" -> M(RemFirst(l.ct, I), l.gt)
            [] r.cls \in {"T", "G", "I"} -> AddTerm(l, r)
            [] r.cls = "M" -> MAddM(l, r)
            [] OTHER -> X)
    [] OTHER -> X

ISub(l, r) ==
  CASE l.cls = "I" ->
         (CASE r.cls = "I" -> MK(<<>>) [] r.cls = "N" -> l
            [] r.cls = "M" -> (IF InSeq(I, r.ct) THEN MK(<<>>) ELSE l) [] OTHER -> X)
    [] l.cls = "T" ->
         (CASE r.cls = "T" -> (IF l.c = r.c THEN MK(<<>>) ELSE l)
            [] r.cls = "M" -> (IF InSeq(l, r.ct) THEN MK(<<>>) ELSE l) [] OTHER -> X)
    [] l.cls = "M" ->
         (CASE r.cls = "M" -> RemoveAll(l, r.ct \o r.gt)
            [] r.cls \in {"T", "I"} -> M(RemFirst(l.ct, r), l.gt)
            [] r.cls = "G" -> M(l.ct, RemFirst(l.gt, r))
            [] OTHER -> X)
    [] OTHER -> X

IInter(l, r, sm) ==
  CASE l.cls = "T" ->
         IF l = r THEN l
         ELSE (CASE r.cls = "T" -> TJoin(l, r, sm)
                 [] r.cls = "M" -> (IF AllT(r.ct) THEN MK(Prod(<<l>>, r.ct, sm)) ELSE X)
                 [] OTHER -> X)
    [] l.cls = "M" ->
         (CASE r.cls = "M" -> (IF AllT(l.ct) /\ AllT(r.ct) THEN MK(Prod(l.ct, r.ct, sm)) ELSE X)
            [] r.cls = "T" -> (IF AllT(l.ct) THEN MK(Prod(l.ct, <<r>>, sm)) ELSE X)
            [] OTHER -> X)
    [] OTHER -> X

\* Model.__eq__: equal sets of terms (hashes every term)
MEq(l, r) == r.cls = "M" /\ TermSet(l) = TermSet(r)
MEqRaises(l, r) == HashBroken /\ r.cls = "M" /\ \E t \in TermSet(l) \cup TermSet(r) : HasBad(t)

IMul(l, r, sm) ==
  CASE l.cls = "T" ->
         IF l = r THEN l
         ELSE (CASE r.cls = "T" -> MK(<<l, r, TJoin(l, r, sm)>>)
                 [] r.cls = "M" -> (IF AllT(r.ct) THEN MAddM(MK(<<l>> \o r.ct), MK(Prod(<<l>>, r.ct, sm))) ELSE X)
                 [] OTHER -> X)
    [] l.cls = "M" ->
         IF MEqRaises(l, r) THEN X
         ELSE IF MulShortcut /\ MEq(l, r) THEN l
         ELSE (CASE r.cls = "M" -> (IF AllT(l.ct) /\ AllT(r.ct)
                                     THEN MAddM(MK(l.ct \o r.ct), MK(Prod(l.ct, r.ct, sm))) ELSE X)
                 [] r.cls = "T" -> (IF AllT(l.ct) THEN MAddM(MK(Append(l.ct, r)), MK(Prod(l.ct, <<r>>, sm))) ELSE X)
                 [] OTHER -> X)
    [] OTHER -> X

IDiv(l, r, sm) ==
  CASE l.cls = "T" ->
         IF l = r THEN l
         ELSE (CASE r.cls = "T" -> MK(<<l, TJoin(l, r, sm)>>)
                 [] r.cls = "M" -> (IF AllT(r.ct) THEN IAdd(l, MK(Prod(<<l>>, r.ct, sm))) ELSE X)
                 [] OTHER -> X)
    [] l.cls = "M" ->
         (CASE r.cls = "T" -> AddTerm(l, T(Canon(CC(l) \o r.c, sm)))
            [] r.cls = "M" ->
                 (IF DivByTerms
                  THEN MAddM(l, MK(Map(SelectSeq(r.ct, LAMBDA t : t.cls = "T"), LAMBDA t : T(Canon(CC(l) \o t.c, sm)))))
                  ELSE MAddM(l, MK(Map(CC(r), LAMBDA c : T(Canon(Append(CC(l), c), sm))))))
            [] OTHER -> X)
    [] OTHER -> X

RECURSIVE IBar(_, _)
IBar(l, r) ==
  CASE l.cls = "I" ->
         (CASE r.cls = "T" -> G(I, r) [] r.cls = "M" -> MK(Map(r.ct, LAMBDA t : G(I, t))) [] OTHER -> X)
    [] l.cls = "T" ->
         (CASE r.cls = "T" -> MK(<<G(I, r), G(l, r)>>)
            [] r.cls = "M" -> MK(Map(r.ct, LAMBDA t : G(I, t)) \o Map(r.ct, LAMBDA t : G(l, t)))
            [] OTHER -> X)
    [] l.cls = "M" ->
         IF Len(l.ct) = 1 THEN IBar(l.ct[1], r)
         ELSE LET hasI == InSeq(I, l.ct)
                  hasN == InSeq(N, l.ct)
                  ct == IF hasI /\ hasN THEN RemFirst(RemFirst(l.ct, I), N)
                        ELSE IF hasN THEN RemFirst(l.ct, N)
                        ELSE IF ~hasI THEN <<I>> \o l.ct ELSE l.ct
              IN (CASE r.cls = "T" -> MK(Map(ct, LAMBDA t : G(t, r)))
                    [] r.cls = "M" -> MK(Flat(Map(ct, LAMBDA t : Map(r.ct, LAMBDA f : G(t, f)))))
                    [] OTHER -> X)
    [] OTHER -> X

\* combinations of the members of s with i members, in itertools.combinations order
RECURSIVE Comb(_, _)
Comb(s, i) ==
  IF i = 0 THEN << <<>> >>
  ELSE IF Len(s) < i THEN <<>>
  ELSE Map(Comb(Tail(s), i - 1), LAMBDA c : <<s[1]>> \o c) \o Comb(Tail(s), i)
IPow(l, n, sm) ==
  CASE l.cls = "T" -> l
    [] l.cls = "M" ->
         IF ~AllT(l.ct) THEN X
         ELSE MAddM(l, MK(Map(Flat(Map([i \in 1..(n - 1) |-> i + 1], LAMBDA i : Comb(l.ct, i))),
                             LAMBDA ts : T(Canon(Flat(Map(ts, LAMBDA t : t.c)), sm)))))
    [] OTHER -> X

IOp(o, l, r, sm) ==
  IF l.cls = "X" \/ r.cls = "X" THEN X
  ELSE CASE o = "+" -> IAdd(l, r) [] o = "-" -> ISub(l, r) [] o = ":" -> IInter(l, r, sm)
         [] o = "*" -> IMul(l, r, sm) [] o = "/" -> IDiv(l, r, sm) [] o = "|" -> IBar(l, r)

\* the value of a whole expression, evaluated in the Resolver's post-order
RECURSIVE IEval(_, _)
IEval(e, sm) ==
  CASE e[1] = "v" -> T(<<e[2]>>)
    [] e[1] = "lit" -> (IF e[2] = 1 THEN I ELSE N)
    [] e[1] = "one" -> I
    [] e[1] = "neg1" -> N
    [] e[1] = "op" -> IOp(e[2], IEval(e[3], sm), IEval(e[4], sm), sm)
    [] e[1] = "pow" -> (LET l == IEval(e[2], sm) IN IF l.cls = "X" THEN X ELSE IPow(l, e[3], sm))
    [] e[1] = "grp" -> IOp("|", IEval(e[2], sm), IEval(e[3], sm), sm)

\* model_description wraps a non-Model result; abstraction to the Abs vocabulary
Wrap(v) == IF v.cls \in {"M", "X"} THEN v ELSE MK(<<v>>)
TAbs(t) == IF t.cls = "T" THEN {t.c[k] : k \in 1..Len(t.c)} ELSE {}
ImplDen(v) ==
  LET m == Wrap(v) IN
    IF m.cls = "X" THEN [exc |-> TRUE, icpt |-> FALSE, neg |-> FALSE, terms |-> {}, groups |-> {}]
    ELSE [exc |-> FALSE,
          icpt |-> InSeq(I, m.ct),
          neg |-> InSeq(N, m.ct),
          terms |-> {TAbs(m.ct[k]) : k \in {k \in 1..Len(m.ct) : m.ct[k].cls = "T"}},
          groups |-> {<<TAbs(m.gt[k].e), TAbs(m.gt[k].f)>> : k \in 1..Len(m.gt)}]
SameDen(i, d) == ~i.exc /\ ~i.neg /\ i.icpt = d.icpt /\ i.terms = d.terms /\ i.groups = d.groups
\* term identity matters for this input: the algorithm answers differently once a:b = b:a
OrderSensitive(f) == ImplDen(IEval(f, TermBySet)) # ImplDen(IEval(f, TRUE))
(* ------------------------------ named deviation classes ------------------ *)
\* KF_C02_late_literal: an intercept literal that is not the first additive item of an effect
\* side -- '(x + 0 | g)', '(x - 1 | g)', '(x + 1 | g)', '(a + b + 0 | g)' (see DESIGN.md section 5)
RECURSIVE LateLiteral(_), EffLate(_)
EffLate(e) == e[1] = "op" /\ e[2] \in {"+", "-"} /\ (e[4][1] = "lit" \/ EffLate(e[3]))
LateLiteral(e) ==
  CASE e[1] = "grp" -> EffLate(e[2])
    [] e[1] = "op" -> LateLiteral(e[3]) \/ LateLiteral(e[4])
    [] OTHER -> FALSE
\* KF_C02_mul_equal_models: a product whose two operands are models with the same terms (at least
\* two): Model.__mul__ returns the left operand unchanged and the interactions are lost
RECURSIVE MulEqualModels(_)
MulEqualModels(e) ==
  CASE e[1] = "op" ->
         (e[2] = "*" /\ LET l == IEval(e[3], TermBySet) r == IEval(e[4], TermBySet) IN
                          l.cls = "M" /\ r.cls = "M" /\ MEq(l, r) /\ Cardinality(TermSet(l)) >= 2)
         \/ MulEqualModels(e[3]) \/ MulEqualModels(e[4])
    [] e[1] = "pow" -> MulEqualModels(e[2])
    [] e[1] = "grp" -> MulEqualModels(e[2]) \/ MulEqualModels(e[3])
    [] OTHER -> FALSE
=============================================================================
