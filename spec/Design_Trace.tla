---------------------------- MODULE Design_Trace ----------------------------
(* Judge for designs recorded from the real code (C->S): C04, C05, C09, C15, C17.             *)
(* One event per line of FV_TRACE.  kind = "build":                                          *)
(*   frame   abstract frame (Design.tla), incl. derived columns for call components          *)
(*   used    names of the frame columns the formula uses (from the generator's own record     *)
(*           of the variables it wrote into the formula text)                                 *)
(*   policy  "drop" | "error" | "pass";   status "ok" | "ValueError:incomplete_rows" (the       *)
(*           refusal of na_action = "error") | other exception name                           *)
(*   common / group / resp: [labels, data, slices, tcomps] (absent parts: labels = <<>>)      *)
(*     labels: sequence of labels (common/resp: sequence of pieces <<name, level>>;           *)
(*             group: <<effect pieces, group pieces>>);  data: rows of integers (NA = -99)    *)
(*     slices: per term <<start, stop>> 0-based;  tcomps: per term the factor names           *)
(*   views   TRUE iff as_dataframe / np.asarray / tuple unpacking / [name] agree (harness)     *)
(* kind = "rows": a relation between two recorded matrices:  b[i] = a[map[i]] and equal labels *)
(* Verdicts are total; every failing clause is printed with the event id.                     *)
EXTENDS Design, Json, IOUtils
VARIABLES i, nbad
Ev == ndJsonDeserialize(IOEnv.FV_TRACE)

Used(e) == Range(e.used)
IncompleteRows(e) == {r \in 1..e.frame.n : \E v \in Used(e) : Missing(e.frame, v, r)}
Keep(e) == Sorted({r \in 1..e.frame.n : r \notin IncompleteRows(e)})
EffFrame(e) == IF e.policy = "drop" THEN TakeRows(e.frame, Keep(e)) ELSE e.frame

\* ---- per matrix clauses ----
ShapeBad(m) == \E r \in 1..Len(m.data) : Len(m.data[r]) # Len(m.labels)
DupLabels(m) == Cardinality(Range(m.labels)) # Len(m.labels)
SlicesBad(m) ==
  m.slices # <<>> /\
  ~(/\ m.slices[1][1] = 0
    /\ m.slices[Len(m.slices)][2] = Len(m.labels)
    /\ \A k \in 1..Len(m.slices) : m.slices[k][1] < m.slices[k][2] \/ m.slices[k][1] = m.slices[k][2]
    /\ \A k \in 1..(Len(m.slices) - 1) : m.slices[k][2] = m.slices[k + 1][1])
CellsBad(fr, m, Val(_, _, _)) ==
  \E r \in 1..Len(m.data) : \E j \in 1..Len(m.labels) : m.data[r][j] # Val(fr, m.labels[j], r)
\* a factor's levels appear in level order (sorted, or as declared), all of them or all but one
IsSubseqMissingAtMostOne(s, full) ==
  /\ Len(s) >= Len(full) - 1 /\ Len(s) <= Len(full)
  /\ \E drop \in 0..Len(full) :
       s = SelectSeq(full, LAMBDA x : drop = 0 \/ x # full[IF drop = 0 THEN 1 ELSE drop])
\* labels of a term = product of per-factor label lists, first factor slowest
FirstSeen(s) ==  \* distinct elements in order of first appearance
  LET RECURSIVE F(_, _)
      F(k, acc) == IF k > Len(s) THEN acc
                   ELSE F(k + 1, IF \E q \in 1..Len(acc) : acc[q] = s[k] THEN acc ELSE Append(acc, s[k]))
  IN F(1, <<>>)
TermBad(fr, labs) ==   \* labs: the labels (piece sequences) of one term
  labs # <<>> /\
  LET nf == Len(labs[1])
      lists == [c \in 1..nf |-> FirstSeen([j \in 1..Len(labs) |-> labs[j][c]])]
      rest(c) == LET RECURSIVE P(_)
                     P(q) == IF q > nf THEN 1 ELSE Len(lists[q]) * P(q + 1)
                 IN P(c + 1)
  IN \/ \E j \in 1..Len(labs) : Len(labs[j]) # nf
     \/ \E j \in 1..Len(labs) : \E c \in 1..nf :
          labs[j][c] # lists[c][(((j - 1) \div rest(c)) % Len(lists[c])) + 1]
     \/ \E c \in 1..nf :
          LET v == lists[c][1][1] IN
            \/ \E q \in 1..Len(lists[c]) : lists[c][q][1] # v
            \/ (IsCat(fr, v) /\ Len(lists[c][1]) = 2 /\ ~IsSubseqMissingAtMostOne([q \in 1..Len(lists[c]) |-> lists[c][q][2]], Levels(fr, v)))
            \* sum coding: the levels other than the omitted one, in level order, after the optional "mean"
            \/ (IsCat(fr, v) /\ Len(lists[c][1]) = 4 /\
                  LET lv == SelectSeq([q \in 1..Len(lists[c]) |-> lists[c][q][2]], LAMBDA x : x # 0)
                      om == lists[c][1][4]
                  IN \/ lv # SelectSeq(Levels(fr, v), LAMBDA x : x # om)
                     \/ \E q \in 1..Len(lists[c]) : lists[c][q][4] # om
                     \/ \E q \in 2..Len(lists[c]) : lists[c][q][2] = 0)
            \/ (~IsCat(fr, v) /\ lists[c] # << <<v, 0>> >>)
\* a factor-valued response (not subset notation): one indicator per level, in level order (sorted, or as declared)
RespOrderBad(fr, m) ==
  /\ Len(m.labels) >= 2
  /\ \A j \in 1..Len(m.labels) : Len(m.labels[j]) = 1 /\ Len(m.labels[j][1]) = 2 /\ m.labels[j][1][2] > 0
                                  /\ m.labels[j][1][1] = m.labels[1][1][1]
  /\ [j \in 1..Len(m.labels) |-> m.labels[j][1][2]] # Levels(fr, m.labels[1][1][1])
CommonTermsBad(fr, m) ==
  \E k \in 1..Len(m.slices) :
    TermBad(fr, SubSeq(m.labels, m.slices[k][1] + 1, m.slices[k][2]))
\* group term: group slots in level order (all levels, first factor slowest), effect fastest
GroupTermBad(fr, labs) ==
  labs # <<>> /\
  LET effs == FirstSeen([j \in 1..Len(labs) |-> labs[j][1]])
      grps == FirstSeen([j \in 1..Len(labs) |-> labs[j][2]])
  IN \/ Len(labs) # Len(effs) * Len(grps)
     \/ \E j \in 1..Len(labs) :
          labs[j] # <<effs[((j - 1) % Len(effs)) + 1], grps[((j - 1) \div Len(effs)) + 1]>>
     \/ TermBad(fr, effs) /\ effs # << <<>> >>
     \/ LET gv == [c \in 1..Len(grps[1]) |-> grps[1][c][1]] IN grps # GroupCells(fr, gv)
GroupTermsBad(fr, m) ==
  \E k \in 1..Len(m.slices) :
    GroupTermBad(fr, SubSeq(m.labels, m.slices[k][1] + 1, m.slices[k][2]))

\* categorical NA under 'pass' is outside the domain the statement fixes
PassOOD(e) == e.policy = "pass" /\ \E v \in Used(e) : IsCat(e.frame, v) /\ \E r \in 1..e.frame.n : Missing(e.frame, v, r)
BuildClause(e) ==
  LET fr == EffFrame(e) IN
  IF PassOOD(e) THEN "none"
  ELSE IF e.policy = "error" /\ IncompleteRows(e) # {} THEN
         (IF e.status = "ValueError:incomplete_rows" THEN "none"
          ELSE IF e.status = "ok" THEN "incomplete_rows_not_refused"
          ELSE "exception_on_valid_input")      \* another failure (e.g. while resolving the formula) came first
  ELSE IF e.status = "ValueError:incomplete_rows" THEN "complete_data_refused"
  ELSE IF fr.n = 0 THEN "none"
  ELSE IF e.status # "ok" THEN "exception_on_valid_input"
  ELSE IF Len(e.common.data) # fr.n /\ e.common.labels # <<>> THEN "common_rows_not_the_retained_observations"
  ELSE IF Len(e.group.data) # fr.n /\ e.group.labels # <<>> THEN "group_rows_not_the_retained_observations"
  ELSE IF Len(e.resp.data) # fr.n /\ e.resp.labels # <<>> THEN "response_rows_not_the_retained_observations"
  ELSE IF ShapeBad(e.common) \/ ShapeBad(e.group) THEN "labels_and_columns_differ_in_number"
  ELSE IF DupLabels(e.common) \/ DupLabels(e.group) THEN "duplicate_labels"
  ELSE IF SlicesBad(e.common) \/ SlicesBad(e.group) THEN "slices_do_not_partition_columns"
  ELSE IF CellsBad(fr, e.common, LabelVal) THEN "common_cells_differ_from_label_meaning"
  ELSE IF CellsBad(fr, e.group, GroupLabelVal) THEN "group_cells_differ_from_label_meaning"
  ELSE IF CellsBad(fr, e.resp, LabelVal) THEN "response_cells_differ_from_label_meaning"
  ELSE IF RespOrderBad(fr, e.resp) THEN "response_level_order"
  ELSE IF CommonTermsBad(fr, e.common) THEN "common_label_order_or_levels"
  ELSE IF GroupTermsBad(fr, e.group) THEN "group_slot_order_or_levels"
  ELSE IF ~e.views THEN "views_disagree"
  ELSE IF e.resp_expected # (e.resp.labels # <<>>) THEN "response_presence_differs_from_formula"
  ELSE "none"

\* kind = "refuse": an input the property says must be refused
RefuseClause(e) == IF e.status = "ok" THEN "accepted_input_that_must_be_refused" ELSE "none"
\* kind = "object": container invariants of a matrix object (also those returned by evaluate_new_data)
ObjectClause(e) ==
  IF e.status # "ok" THEN "exception"
  ELSE IF SlicesBad([slices |-> e.slices, labels |-> [k \in 1..e.ncols |-> k]]) THEN "slices_do_not_partition_columns"
  ELSE IF e.nrows # e.want_rows THEN "rows_not_one_per_observation"
  ELSE IF ~e.views THEN "views_disagree"
  ELSE IF ~e.printed THEN "printing_fails_or_misreports_shape"
  ELSE "none"

\* kind = "unseen": evaluate_new_data on a frame with unseen levels / new groups (C10)
\*   train, new: abstract frames (new is coded with the training level tables; unseen = a code
\*   outside them);  part "common" | "group";  mode;  status;  warned
\*   labels, tslices: labels and slices of the TRAINING matrix;  data, slices: the returned object
\*   tfac: per term the grouping factor's variables;  factors_new: reported factor names (as variable lists)
PieceVars(lab) == {lab[k][1] : k \in 1..Len(lab)}
LabelVars(e) ==
  IF e.part = "common" THEN UNION {PieceVars(e.labels[j]) : j \in 1..Len(e.labels)}
  ELSE UNION {PieceVars(e.labels[j][1]) \cup PieceVars(e.labels[j][2]) : j \in 1..Len(e.labels)}
\* the zero rule, as the statement puts it: a column involving a variable is zero on the rows that hold an
\* unseen level of it (for treatment indicators the label meaning gives that by itself; the constant
\* "mean" column and the -1 rows of a sum coding do not), every other entry is what the label says
ULabelVal(train, fr, lab, r) ==
  IF \E k \in 1..Len(lab) : Unseen(train, fr, lab[k][1], r) THEN 0 ELSE LabelVal(fr, lab, r)
UGroupLabelVal(train, fr, lab, r) ==
  IF \E k \in 1..Len(lab[1]) : Unseen(train, fr, lab[1][k][1], r) THEN 0 ELSE GroupLabelVal(fr, lab, r)
GroupUnseenBad(e) ==
  \E k \in 1..Len(e.tslices) :
    LET a == e.tslices[k][1]
        w0 == e.tslices[k][2] - a
        labs == SubSeq(e.labels, a + 1, a + w0)
        nr == UnseenRows(e.train, e.new, Range(e.tfac[k]))
        ncells == Len(GroupCells(e.train, e.tfac[k]))
        ne == w0 \div ncells
        b == e.slices[k][1]
        w1 == e.slices[k][2] - b
    IN \/ w1 # w0 + (IF nr = {} THEN 0 ELSE ne)
       \/ \E r \in 1..e.new.n :
            \/ \E j \in 1..w0 : e.data[r][b + j] # UGroupLabelVal(e.train, e.new, labs[j], r)
            \/ (nr # {} /\ \E j \in 1..ne :
                   e.data[r][b + w0 + j] # (IF r \in nr THEN ULabelVal(e.train, e.new, labs[j][1], r) ELSE 0))
ExpectedNewFactors(e) ==
  DistinctSeq(SelectSeq(e.tfac, LAMBDA g : UnseenRows(e.train, e.new, Range(g)) # {}))
UnseenClause(e) ==
  LET ur == UnseenRows(e.train, e.new, LabelVars(e)) IN
  IF e.mode = "error" /\ ur # {} THEN (IF e.status = "ValueError" THEN "none" ELSE "unseen_level_not_refused_in_error_mode")
  ELSE IF e.status # "ok" THEN "exception_on_new_data"
  ELSE IF Len(e.data) # e.new.n THEN "rows_not_one_per_observation"
  ELSE IF e.mode = "warning" /\ ur # {} /\ ~e.warned THEN "no_warning_in_warning_mode"
  ELSE IF (e.mode = "silent" \/ ur = {}) /\ e.warned THEN "warning_although_silent_or_nothing_unseen"
  ELSE IF e.part = "common" /\ CellsBad(e.new, [labels |-> e.labels, data |-> e.data], LAMBDA fr, lab, r : ULabelVal(e.train, fr, lab, r)) THEN "cells_differ_from_unseen_level_rule"
  ELSE IF e.part = "group" /\ SlicesBad([slices |-> e.slices, labels |-> [k \in 1..(IF e.data = <<>> THEN 0 ELSE Len(e.data[1])) |-> k]]) THEN "slices_do_not_partition_columns"
  ELSE IF e.part = "group" /\ GroupUnseenBad(e) THEN "group_block_rule_violated"
  ELSE IF e.part = "group" /\ e.factors_new # ExpectedNewFactors(e) THEN "factors_with_new_levels_differ"
  ELSE "none"

RowsClause(e) ==
  IF e.status # "ok" THEN "exception"
  ELSE IF e.la # e.lb THEN "labels_changed"
  ELSE IF Len(e.b) # Len(e.map) THEN "row_count_differs"
  ELSE IF \E k \in 1..Len(e.map) : e.b[k] # e.a[e.map[k]] THEN "rows_differ"
  ELSE "none"

Clause(e) ==
  CASE e.kind = "build" -> BuildClause(e)
    [] e.kind = "rows" -> RowsClause(e)
    [] e.kind = "refuse" -> RefuseClause(e)
    [] e.kind = "object" -> ObjectClause(e)
    [] e.kind = "unseen" -> UnseenClause(e)

Init == i = 1 /\ nbad = 0
Step ==
  /\ i <= Len(Ev)
  /\ LET c == Clause(Ev[i]) IN
       /\ (c # "none") => PrintT(<<"FV", "bad", Ev[i].id, c>>)
       /\ nbad' = IF c = "none" THEN nbad ELSE nbad + 1
  /\ i' = i + 1
Spec == Init /\ [][Step]_<<i, nbad>>
Consumed == TLCGet("stats").diameter = Len(Ev) + 1 /\ PrintT(<<"FV", "done", Len(Ev)>>)
=============================================================================
