----------------------------- MODULE Lexer_Trace -----------------------------
(* Judge for recorded scans of the real code (C->S): event = [id, cs (character classes),     *)
(* ok (Scanner.scan returned), toks (<<kind, start, stop>> per token, 1-based, inserted       *)
(* intercept tokens at position 0)].  The expected tokens are computed here (AbsTokens).       *)
EXTENDS LexerAbs, Json, IOUtils
VARIABLES i, nbad
Ev == ndJsonDeserialize(IOEnv.FV_TRACE)
Clause(e) ==
  LET a == AbsTokens(e.cs) IN
    IF e.ok /\ ~a.ok THEN "scanner_accepted_non_sentence"
    ELSE IF ~e.ok THEN (IF a.ok THEN "rejected_sentence" ELSE "none")      \* rejection is allowed: counted as drift
    ELSE IF Len(e.toks) # Len(a.toks) THEN "token_count_differs"
    ELSE IF \E k \in 1..Len(a.toks) : e.toks[k] # a.toks[k] THEN "token_differs"
    ELSE "none"
Init == i = 1 /\ nbad = 0
Step ==
  /\ i <= Len(Ev)
  /\ LET c == Clause(Ev[i]) IN
       /\ (c # "none") => PrintT(<<"FV", "bad", Ev[i].id, c>>)
       /\ nbad' = IF c = "none" THEN nbad ELSE nbad + 1
  /\ i' = i + 1
Spec == Init /\ [][Step]_<<i, nbad>>
Consumed == TLCGet("stats").diameter = Len(Ev) + 1 /\ PrintT(<<"FV", "done", Len(Ev)>>)
=============================================================================
