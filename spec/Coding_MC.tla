------------------------------ MODULE Coding_MC ------------------------------
(* Every number of levels n <= MaxN and every reference / omitted level: one state per case.  *)
EXTENDS Coding, Json, IOUtils, CSV
CONSTANTS MaxN, DoExport
VARIABLES n, pos
Init == n = 1 /\ pos = 1
Next == \/ (pos < n /\ pos' = pos + 1 /\ n' = n)
        \/ (pos = n /\ n < MaxN /\ n' = n + 1 /\ pos' = 1)
Spec == Init /\ [][Next]_<<n, pos>>
TreatmentValid ==
  LET r == ImplTreatmentReduced(n, pos) f == ImplTreatmentFull(n) IN
    TreatmentReducedOK(n, pos, r.m, r.labels) /\ TreatmentFullOK(n, f.m, f.labels)
SumValid ==
  LET r == ImplSumReduced(n, pos) f == ImplSumFull(n, pos) IN
    SumReducedOK(n, pos, r.m, r.labels) /\ SumFullOK(n, pos, f.m, f.labels)
Case == [n |-> n, pos |-> pos,
         tr |-> ImplTreatmentReduced(n, pos), tf |-> ImplTreatmentFull(n),
         sr |-> ImplSumReduced(n, pos), sf |-> ImplSumFull(n, pos)]
Export == DoExport => CSVWrite("%1$s", <<ToJson(Case)>>, IOEnv.FV_OUT)
=============================================================================
