------------------------------- MODULE Helpers -------------------------------
(***************************************************************************)
(* Built-in helper functions (C16): binary / offset / prop as small state  *)
(* machines with a training step and a prediction step.                    *)
(*                                                                         *)
(* Abs (from the statement):                                               *)
(*   binary(x, s)  1 exactly where x = s; s omitted = the smallest value   *)
(*                 of the training column; an s that never occurs in the   *)
(*                 training column is refused; at prediction the SAME s    *)
(*                 (never re-estimated, never refused)                     *)
(*   offset(v)     v unchanged; a constant is broadcast; at prediction it  *)
(*                 is recomputed from the new frame                        *)
(*   prop(s, n)    the two columns s and n; refused unless s <= n row by   *)
(*                 row; at prediction the trials of the new frame          *)
(*                                                                         *)
(* Impl: the objects of formulae/transforms.py and formulae/terms/call.py  *)
(* as they are driven by Call.set_type / set_data / eval_new_data:         *)
(*   Binary   params_set / success, estimated at the first call only       *)
(*   Offset   kind variable | constant, size set from the frame            *)
(*   Proportion  trials_type variable | constant; eval_new_data_proportion *)
(*            re-evaluates the trials argument in the new frame            *)
(* One action per call of the object (Train = first evaluation, Predict =  *)
(* evaluate_new_data).  Values are small naturals; the harness renders     *)
(* them as integers and as strings.                                        *)
(***************************************************************************)
EXTENDS Naturals, Sequences, FiniteSets, TLC

CONSTANTS MaxLen,    \* training columns have 1..MaxLen rows
          MaxNew,    \* new frames have 1..MaxNew rows
          Vals,      \* values of training columns
          NewVals,   \* values of new columns (a superset: unseen values)
          None       \* "argument omitted"

VARIABLES cfg,     \* the case: helper, training columns, argument, new columns
          phase,   \* "init" | "trained" | "refused" | "done"
          st,      \* the object's state
          out      \* [train |-> column(s), new |-> column]
vars == <<cfg, phase, st, out>>

SeqsUpTo(S, n) == UNION {[1..k -> S] : k \in 1..n}
Min(S) == CHOOSE m \in S : \A q \in S : m <= q
SetOf(s) == {s[k] : k \in 1..Len(s)}
Ind(col, v) == [k \in 1..Len(col) |-> IF col[k] = v THEN 1 ELSE 0]
Const(n, v) == [k \in 1..n |-> v]

Helpers == {"binary", "offset_col", "offset_const", "prop_col", "prop_const"}

Cases ==
  {[h |-> "binary", x |-> x, x2 |-> <<>>, arg |-> a, new |-> nw] :
      x \in SeqsUpTo(Vals, MaxLen), a \in NewVals \cup {None}, nw \in SeqsUpTo(NewVals, MaxNew)}
  \cup
  {[h |-> "offset_col", x |-> x, x2 |-> <<>>, arg |-> None, new |-> nw] :
      x \in SeqsUpTo(Vals, MaxLen), nw \in SeqsUpTo(NewVals, MaxNew)}
  \cup
  {[h |-> "offset_const", x |-> x, x2 |-> <<>>, arg |-> a, new |-> nw] :
      x \in {Const(k, 0) : k \in 1..MaxLen}, a \in Vals, nw \in {Const(k, 0) : k \in 1..MaxNew}}
  \cup
  {[h |-> "prop_col", x |-> x, x2 |-> x2, arg |-> None, new |-> nw] :
      x \in SeqsUpTo(Vals, MaxLen), x2 \in SeqsUpTo(Vals, MaxLen), nw \in SeqsUpTo(NewVals, MaxNew)}
  \cup
  {[h |-> "prop_const", x |-> x, x2 |-> <<>>, arg |-> a, new |-> nw] :
      x \in SeqsUpTo(Vals, MaxLen), a \in Vals, nw \in {Const(k, 0) : k \in 1..MaxNew}}
Valid(c) == c.h = "prop_col" => Len(c.x) = Len(c.x2)

NoState == [params_set |-> FALSE, success |-> None, kind |-> "none"]
Init == cfg \in {c \in Cases : Valid(c)} /\ phase = "init" /\ st = NoState /\ out = [train |-> <<>>, new |-> <<>>]

(* ------------------------------ Impl ------------------------------------ *)
\* Binary.__call__ on the training column
TrainBinary ==
  /\ cfg.h = "binary" /\ phase = "init"
  /\ LET s == IF cfg.arg = None THEN Min(SetOf(cfg.x)) ELSE cfg.arg IN
       IF \A k \in 1..Len(cfg.x) : cfg.x[k] # s
       THEN phase' = "refused" /\ UNCHANGED <<st, out>>
       ELSE /\ st' = [params_set |-> TRUE, success |-> s, kind |-> "binary"]
            /\ out' = [out EXCEPT !.train = <<Ind(cfg.x, s)>>]
            /\ phase' = "trained"
  /\ UNCHANGED cfg
\* Binary.__call__ with params_set: the stored success level, no check
PredictBinary ==
  /\ cfg.h = "binary" /\ phase = "trained" /\ st.params_set
  /\ out' = [out EXCEPT !.new = Ind(cfg.new, st.success)]
  /\ phase' = "done" /\ UNCHANGED <<cfg, st>>

\* Offset(x): kind by the type of the argument; eval() returns the column or size x constant
TrainOffset ==
  /\ cfg.h \in {"offset_col", "offset_const"} /\ phase = "init"
  /\ st' = [NoState EXCEPT !.kind = IF cfg.h = "offset_col" THEN "variable" ELSE "constant"]
  /\ out' = [out EXCEPT !.train = <<IF cfg.h = "offset_col" THEN cfg.x ELSE Const(Len(cfg.x), cfg.arg)>>]
  /\ phase' = "trained" /\ UNCHANGED cfg
\* Call.eval_new_data for an offset: the call is evaluated again in the new frame
PredictOffset ==
  /\ cfg.h \in {"offset_col", "offset_const"} /\ phase = "trained"
  /\ out' = [out EXCEPT !.new = IF st.kind = "variable" THEN cfg.new ELSE Const(Len(cfg.new), cfg.arg)]
  /\ phase' = "done" /\ UNCHANGED <<cfg, st>>

\* proportion(successes, trials) -> Proportion.__init__ checks
TrainProp ==
  /\ cfg.h \in {"prop_col", "prop_const"} /\ phase = "init"
  /\ LET n == IF cfg.h = "prop_col" THEN cfg.x2 ELSE Const(Len(cfg.x), cfg.arg) IN
       IF \E k \in 1..Len(cfg.x) : cfg.x[k] > n[k]
       THEN phase' = "refused" /\ UNCHANGED <<st, out>>
       ELSE /\ st' = [NoState EXCEPT !.kind = IF cfg.h = "prop_col" THEN "variable" ELSE "constant"]
            /\ out' = [out EXCEPT !.train = <<cfg.x, n>>]
            /\ phase' = "trained"
  /\ UNCHANGED cfg
\* Call.eval_new_data_proportion: trials only; constant -> the literal, variable -> the new column
PredictProp ==
  /\ cfg.h \in {"prop_col", "prop_const"} /\ phase = "trained"
  /\ out' = [out EXCEPT !.new = IF st.kind = "variable" THEN cfg.new ELSE Const(Len(cfg.new), cfg.arg)]
  /\ phase' = "done" /\ UNCHANGED <<cfg, st>>

Next == TrainBinary \/ PredictBinary \/ TrainOffset \/ PredictOffset \/ TrainProp \/ PredictProp
Spec == Init /\ [][Next]_vars

(* ------------------------------ Abs ------------------------------------- *)
AbsSuccess(c) == IF c.arg = None THEN Min(SetOf(c.x)) ELSE c.arg
AbsRefused(c) ==
  CASE c.h = "binary" -> AbsSuccess(c) \notin SetOf(c.x)
    [] c.h = "prop_col" -> \E k \in 1..Len(c.x) : c.x[k] > c.x2[k]
    [] c.h = "prop_const" -> \E k \in 1..Len(c.x) : c.x[k] > c.arg
    [] OTHER -> FALSE
AbsTrain(c) ==
  CASE c.h = "binary" -> <<Ind(c.x, AbsSuccess(c))>>
    [] c.h = "offset_col" -> <<c.x>>
    [] c.h = "offset_const" -> <<Const(Len(c.x), c.arg)>>
    [] c.h = "prop_col" -> <<c.x, c.x2>>
    [] c.h = "prop_const" -> <<c.x, Const(Len(c.x), c.arg)>>
AbsNew(c) ==
  CASE c.h = "binary" -> Ind(c.new, AbsSuccess(c))
    [] c.h \in {"offset_col", "prop_col"} -> c.new
    [] OTHER -> Const(Len(c.new), c.arg)

Terminal == phase \in {"done", "refused"}
\* the machine agrees with the statement on every case
Meaning == Terminal =>
  /\ (phase = "refused") = AbsRefused(cfg)
  /\ (phase = "done") => (out.train = AbsTrain(cfg) /\ out.new = AbsNew(cfg))
\* a 0/1 column, 1 exactly where the value equals the success level -- also for unseen values
BinaryPointwise == (phase = "done" /\ cfg.h = "binary") =>
  \A k \in 1..Len(cfg.new) : (out.new[k] = 1) = (cfg.new[k] = AbsSuccess(cfg)) /\ out.new[k] \in {0, 1}
\* parameters estimated at training time are never estimated again
Frozen == [][st.params_set => (st'.params_set /\ st'.success = st.success)]_vars
\* prediction output has one row per row of the new frame
NewShape == (phase = "done") => Len(out.new) = Len(cfg.new)
=============================================================================
