------------------------------- MODULE PyExpr -------------------------------
(***************************************************************************)
(* Python's expression grammar for the operators formulae supports inside  *)
(* call arguments (property C12):                                          *)
(*   comparison < + - < * / < unary + - < **                               *)
(*   ** is right-associative and binds tighter than a unary operator on    *)
(*   its left, but not on its right:  -x**2 = -(x**2),  2**-x = 2**(-x),   *)
(*   2**x**2 = 2**(x**2)                                                   *)
(* Chained comparisons are outside the fragment (Python gives them a       *)
(* conjunction meaning that no binary tree expresses).                     *)
(* Trees use the encoding of Grammar.tla.  PyParse is the Abs layer of     *)
(* C12; Grammar!ImplParse (the formula parser, reused by formulae for the  *)
(* arguments of calls) is the Impl layer.                                  *)
(***************************************************************************)
EXTENDS Grammar

PFail == [ok |-> FALSE, cur |-> 0, t |-> <<>>]
POk(cur, t) == [ok |-> TRUE, cur |-> cur, t |-> t]
At(ts, k) == IF k <= Len(ts) THEN ts[k] ELSE "EOF"

RECURSIVE PyCmp(_, _), PyArith(_, _), PyArithLoop(_, _), PyTerm(_, _), PyTermLoop(_, _), PyFactor(_, _), PyPower(_, _), PyAtom(_, _), PyArgs(_, _, _)
PyCmp(ts, cur) ==
  LET l == PyArith(ts, cur) IN
    IF ~l.ok THEN PFail
    ELSE IF At(ts, l.cur) \in CmpOps
         THEN LET r == PyArith(ts, l.cur + 1) IN
                IF ~r.ok \/ At(ts, r.cur) \in CmpOps THEN PFail     \* no chained comparisons
                ELSE POk(r.cur, <<"bin", ts[l.cur], l.t, r.t>>)
         ELSE l
PyArith(ts, cur) == LET l == PyTerm(ts, cur) IN IF ~l.ok THEN PFail ELSE PyArithLoop(ts, l)
PyArithLoop(ts, acc) ==
  IF At(ts, acc.cur) \in {"PLUS", "MINUS"}
  THEN LET r == PyTerm(ts, acc.cur + 1) IN
         IF ~r.ok THEN PFail ELSE PyArithLoop(ts, POk(r.cur, <<"bin", ts[acc.cur], acc.t, r.t>>))
  ELSE acc
PyTerm(ts, cur) == LET l == PyFactor(ts, cur) IN IF ~l.ok THEN PFail ELSE PyTermLoop(ts, l)
PyTermLoop(ts, acc) ==
  IF At(ts, acc.cur) \in {"STAR", "SLASH"}
  THEN LET r == PyFactor(ts, acc.cur + 1) IN
         IF ~r.ok THEN PFail ELSE PyTermLoop(ts, POk(r.cur, <<"bin", ts[acc.cur], acc.t, r.t>>))
  ELSE acc
PyFactor(ts, cur) ==
  IF At(ts, cur) \in {"PLUS", "MINUS"}
  THEN LET r == PyFactor(ts, cur + 1) IN IF ~r.ok THEN PFail ELSE POk(r.cur, <<"un", ts[cur], r.t>>)
  ELSE PyPower(ts, cur)
PyPower(ts, cur) ==
  LET b == PyAtom(ts, cur) IN
    IF ~b.ok THEN PFail
    ELSE IF At(ts, b.cur) = "STAR_STAR"
         THEN LET e == PyFactor(ts, b.cur + 1) IN     \* the exponent is a factor: right-associative, admits a sign
                IF ~e.ok THEN PFail ELSE POk(e.cur, <<"bin", "STAR_STAR", b.t, e.t>>)
         ELSE b
PyAtom(ts, cur) ==
  LET k == At(ts, cur) IN
  IF k = "IDENTIFIER" /\ At(ts, cur + 1) = "LEFT_PAREN"
  THEN IF At(ts, cur + 2) = "RIGHT_PAREN" THEN POk(cur + 3, <<"call", IdAtom, <<>>, FALSE>>)
       ELSE LET a == PyArgs(ts, cur + 2, <<>>) IN
              IF a.ok /\ At(ts, a.cur) = "RIGHT_PAREN" THEN POk(a.cur + 1, <<"call", IdAtom, a.t, FALSE>>) ELSE PFail
  ELSE IF k \in {"IDENTIFIER", "NUMBER", "STRING", "PYTHON_LITERAL"} THEN POk(cur + 1, <<"atom", k>>)
  ELSE IF k = "LEFT_PAREN"
       THEN LET e == PyCmp(ts, cur + 1) IN
              IF e.ok /\ At(ts, e.cur) = "RIGHT_PAREN" THEN POk(e.cur + 1, <<"grp", e.t>>) ELSE PFail
  ELSE PFail
PyArgs(ts, cur, acc) ==
  LET a == IF At(ts, cur) = "IDENTIFIER" /\ At(ts, cur + 1) = "EQUAL"
           THEN (LET v == PyCmp(ts, cur + 2) IN IF v.ok THEN POk(v.cur, <<"assign", IdAtom, v.t>>) ELSE PFail)
           ELSE PyCmp(ts, cur)
  IN IF ~a.ok THEN PFail
     ELSE IF At(ts, a.cur) = "COMMA" THEN PyArgs(ts, a.cur + 1, Append(acc, a.t))
     ELSE POk(a.cur, Append(acc, a.t))

PyParse(ts) == LET r == PyCmp(ts, 1) IN IF r.ok /\ r.cur = Len(ts) + 1 THEN r ELSE PFail

\* KF_C12_pow: a power whose exponent is a bare power, or a sign applied to a bare power
RECURSIVE PowIssue(_)
PowIssue(t) ==
  CASE t[1] = "bin" -> (t[2] = "STAR_STAR" /\ t[4][1] = "bin" /\ t[4][2] = "STAR_STAR")
                       \/ PowIssue(t[3]) \/ PowIssue(t[4])
    [] t[1] = "un" -> (t[3][1] = "bin" /\ t[3][2] = "STAR_STAR") \/ PowIssue(t[3])
    [] t[1] = "grp" -> PowIssue(t[2])
    [] t[1] = "call" -> \E k \in 1..Len(t[3]) : PowIssue(t[3][k])
    [] t[1] = "assign" -> PowIssue(t[3])
    [] OTHER -> FALSE
=============================================================================
