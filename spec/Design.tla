------------------------------- MODULE Design -------------------------------
(***************************************************************************)
(* Cell-level meaning of design matrices.  Shared Abs layer of C04, C05,   *)
(* C06, C08, C09, C10, C15, C17.                                           *)
(*                                                                         *)
(* A frame is [n, cols] with cols a function from column names to          *)
(*   [kind |-> "num", v |-> <<int...>>]           NA is the value NA       *)
(*   [kind |-> "cat", v |-> <<code...>>, decl |-> <<code...>>]             *)
(* Level codes are >= 1 and numbered so that their numeric order is the    *)
(* sorted order of the level names; decl is the declared order of an       *)
(* ordered categorical (<<>> for unordered data); a missing cell is 0.     *)
(*                                                                         *)
(* A label is a sequence of pieces <<name, level>> (level 0: numeric       *)
(* piece).  A group-specific label is <<effect pieces, group pieces>>.     *)
(*                                                                         *)
(* A formula is [resp, icpt, terms, groups]: terms a sequence of terms     *)
(* (sequences of column names), groups a sequence of [e, g] (e = <<>> for  *)
(* the group intercept).                                                   *)
(***************************************************************************)
EXTENDS Integers, Sequences, FiniteSets, SequencesExt, TLC

NA == -99
\* Range(s), the set of elements of a sequence, comes from the community module Functions
Sorted(S) == SetToSortSeq(S, LAMBDA a, b : a < b)
IsCat(frame, v) == frame.cols[v].kind = "cat"
Cell(frame, v, r) == frame.cols[v].v[r]
Missing(frame, v, r) == Cell(frame, v, r) = (IF IsCat(frame, v) THEN 0 ELSE NA)

\* levels of a categorical column: declared order, else the sorted observed levels
Levels(frame, v) ==
  LET c == frame.cols[v] IN IF c.decl # <<>> THEN c.decl ELSE Sorted(Range(c.v) \ {0})

(* ---------------- meaning of a label ---------------- *)
\* a piece <<name, level>> is a numeric column (level 0) or a treatment indicator; a sum-coded piece
\* is <<name, level, "sum", omitted level>>: 1 on its level, -1 on the omitted level, 0 elsewhere
\* (level 0 is the label "mean" of a full sum coding: the constant 1)
PieceVal(frame, p, r) ==
  IF Len(p) = 4
  THEN (IF p[2] = 0 THEN 1
        ELSE IF Cell(frame, p[1], r) = p[2] THEN 1
        ELSE IF Cell(frame, p[1], r) = p[4] THEN -1 ELSE 0)
  ELSE IF p[2] = 0 THEN Cell(frame, p[1], r)
  ELSE IF Cell(frame, p[1], r) = p[2] THEN 1 ELSE 0
RECURSIVE LabelVal(_, _, _)
LabelVal(frame, lab, r) ==
  IF lab = <<>> THEN 1
  ELSE LET a == PieceVal(frame, lab[1], r)
           b == LabelVal(frame, Tail(lab), r)
       IN IF a = NA \/ b = NA THEN NA ELSE a * b
\* e|g[l]: the column e on the rows of group l and 0 elsewhere
InGroup(frame, gp, r) == \A k \in 1..Len(gp) : Cell(frame, gp[k][1], r) = gp[k][2]
\* (a missing numeric value makes every column derived from it missing, also outside its group)
GroupLabelVal(frame, lab, r) ==
  LET e == LabelVal(frame, lab[1], r) IN IF e = NA THEN NA ELSE IF InGroup(frame, lab[2], r) THEN e ELSE 0

(* ---------------- the design of a formula on a frame ---------------- *)
\* a categorical factor of a term is coded with one column per level except the first
\* (reduced) iff the term without that factor is in the model (the intercept is the empty term)
Margin(t, k) == SubSeq(t, 1, k - 1) \o SubSeq(t, k + 1, Len(t))
SameTerm(a, b) == Range(a) = Range(b) /\ Len(a) = Len(b)
InModel(form, t) ==
  IF t = <<>> THEN form.icpt ELSE \E j \in 1..Len(form.terms) : SameTerm(form.terms[j], t)
Reduced(form, t, k) == InModel(form, Margin(t, k))

RedSeq(form, t) == [k \in 1..Len(t) |-> Reduced(form, t, k)]
Const(t, b) == [k \in 1..Len(t) |-> b]
CompLabels(frame, v, reduced) ==
  IF ~IsCat(frame, v) THEN << <<v, 0>> >>
  ELSE LET lv == Levels(frame, v)
           use == IF reduced THEN Tail(lv) ELSE lv
       IN [j \in 1..Len(use) |-> <<v, use[j]>>]
\* labels of a term: cartesian product of the factors' labels, first factor slowest
\* red: sequence of booleans, red[k] = factor k is reduced
RECURSIVE TermLabels(_, _, _, _)
TermLabels(frame, t, k, red) ==
  IF k > Len(t) THEN << <<>> >>
  ELSE LET first == CompLabels(frame, t[k], red[k])
           rest == TermLabels(frame, t, k + 1, red)
       IN [j \in 1..(Len(first) * Len(rest)) |->
             <<first[((j - 1) \div Len(rest)) + 1]>> \o rest[((j - 1) % Len(rest)) + 1]]
RECURSIVE Flat(_)
Flat(ss) == IF ss = <<>> THEN <<>> ELSE ss[1] \o Flat(Tail(ss))

CommonLabels(form, frame) ==
  (IF form.icpt THEN << <<>> >> ELSE <<>>) \o
  Flat([j \in 1..Len(form.terms) |->
          TermLabels(frame, form.terms[j], 1, RedSeq(form, form.terms[j]))])
\* per term <<name index, first column, one past last column>> (0-based, like Python slices)
RECURSIVE SliceSeq(_, _)
SliceSeq(widths, start) ==
  IF widths = <<>> THEN <<>>
  ELSE << <<start, start + widths[1]>> >> \o SliceSeq(Tail(widths), start + widths[1])
CommonWidths(form, frame) ==
  (IF form.icpt THEN <<1>> ELSE <<>>) \o
  [j \in 1..Len(form.terms) |-> Len(TermLabels(frame, form.terms[j], 1, RedSeq(form, form.terms[j])))]

\* group-specific terms: effect coded reduced iff the group intercept of the same factor is present
HasGroupIcpt(form, g) == \E j \in 1..Len(form.groups) : form.groups[j].e = <<>> /\ form.groups[j].g = g
GroupCells(frame, g) ==   \* all combinations of the levels of the grouping factors, first slowest
  TermLabels(frame, g, 1, Const(g, FALSE))
GroupTermLabels(form, frame, gt) ==
  LET eff == IF gt.e = <<>> THEN << <<>> >>
             ELSE TermLabels(frame, gt.e, 1, Const(gt.e, HasGroupIcpt(form, gt.g)))
      cells == GroupCells(frame, gt.g)
  IN [j \in 1..(Len(cells) * Len(eff)) |->
        <<eff[((j - 1) % Len(eff)) + 1], cells[((j - 1) \div Len(eff)) + 1]>>]
GroupLabels(form, frame) == Flat([j \in 1..Len(form.groups) |-> GroupTermLabels(form, frame, form.groups[j])])
GroupWidths(form, frame) == [j \in 1..Len(form.groups) |-> Len(GroupTermLabels(form, frame, form.groups[j]))]

Matrix(frame, labels, Val(_, _, _)) == [r \in 1..frame.n |-> [j \in 1..Len(labels) |-> Val(frame, labels[j], r)]]

\* the response: numeric -> its values; categorical -> one indicator per level
\* subset notation y[l] (form.sub = the level code l): a single 0/1 column, 1 exactly where y = l --
\* also when l does not occur among the evaluated rows (an all-zero column)
IsSubset(form) == "sub" \in DOMAIN form /\ form.sub # 0
RespLabels(form, frame) ==
  IF form.resp = "" THEN <<>>
  ELSE IF IsSubset(form) THEN << << <<form.resp, form.sub>> >> >>
  ELSE LET c == CompLabels(frame, form.resp, FALSE) IN [j \in 1..Len(c) |-> <<c[j]>>]

(* ---------------- missing values ---------------- *)
UsedVars(form) ==
  UNION {Range(form.terms[j]) : j \in 1..Len(form.terms)}
  \cup UNION {Range(form.groups[j].e) \cup Range(form.groups[j].g) : j \in 1..Len(form.groups)}
  \cup (IF form.resp = "" THEN {} ELSE {form.resp})
Incomplete(form, frame) == {r \in 1..frame.n : \E v \in UsedVars(form) : Missing(frame, v, r)}
\* sub-frame made of the given rows, in the given order (repetitions allowed)
TakeRows(frame, rows) ==
  [n |-> Len(rows),
   cols |-> [v \in DOMAIN frame.cols |->
               [frame.cols[v] EXCEPT !.v = [k \in 1..Len(rows) |-> frame.cols[v].v[rows[k]]]]]]
CompleteRows(form, frame) == Sorted({r \in 1..frame.n : r \notin Incomplete(form, frame)})

\* the whole design; status "error" when the policy refuses the data
Design(form, frame0, policy) ==
  LET bad == Incomplete(form, frame0)
      frame == IF policy = "drop" THEN TakeRows(frame0, CompleteRows(form, frame0)) ELSE frame0
  IN IF policy = "error" /\ bad # {} THEN [status |-> "error"]
     ELSE IF frame.n = 0 THEN [status |-> "empty"]
     ELSE [status |-> "ok",
           rows |-> IF policy = "drop" THEN CompleteRows(form, frame0) ELSE [r \in 1..frame0.n |-> r],
           resp_labels |-> RespLabels(form, frame),
           resp |-> Matrix(frame, RespLabels(form, frame), LabelVal),
           common_labels |-> CommonLabels(form, frame),
           common |-> Matrix(frame, CommonLabels(form, frame), LabelVal),
           common_slices |-> SliceSeq(CommonWidths(form, frame), 0),
           group_labels |-> GroupLabels(form, frame),
           group |-> Matrix(frame, GroupLabels(form, frame), GroupLabelVal),
           group_slices |-> SliceSeq(GroupWidths(form, frame), 0)]

(* ---------------- new data ---------------- *)
\* evaluating a built design (labels fixed at training time) on another frame
EvalCommon(d, newframe) == Matrix(newframe, d.common_labels, LabelVal)
EvalGroup(d, newframe) == Matrix(newframe, d.group_labels, GroupLabelVal)
PermuteRows(m, rows) == [k \in 1..Len(rows) |-> m[rows[k]]]

(* ---------------- unseen levels and new groups (C10) ---------------- *)
\* levels are frozen at training time: a cell of the new frame is unseen when its level is not
\* among the training levels
Unseen(train, new, v, r) == IsCat(train, v) /\ Cell(new, v, r) \notin Range(Levels(train, v))
UnseenRows(train, new, vars) == {r \in 1..new.n : \E v \in vars : Unseen(train, new, v, r)}
CommonVars(form) == UNION {Range(form.terms[j]) : j \in 1..Len(form.terms)}
GroupVars(form) == UNION {Range(form.groups[j].e) \cup Range(form.groups[j].g) : j \in 1..Len(form.groups)}
\* common matrix: the indicator meaning of a label already gives 0 on a level it does not name,
\* so every column involving the variable is 0 on exactly the rows holding an unseen level and
\* every other entry is what it would be otherwise
EvalCommonMode(form, train, d, new, mode) ==
  IF mode = "error" /\ UnseenRows(train, new, CommonVars(form)) # {} THEN [status |-> "raise"]
  ELSE [status |-> "ok", common |-> Matrix(new, d.common_labels, LabelVal)]
\* group matrix: per term, the training blocks followed -- iff some row belongs to an unseen group
\* of that term's factor -- by one block carrying the effect values of exactly those rows
EffLabelsOf(labs, ncells) == [j \in 1..(Len(labs) \div ncells) |-> labs[j][1]]
EvalGroupTerm(form, train, new, gt) ==
  LET labs == GroupTermLabels(form, train, gt)
      ncells == Len(GroupCells(train, gt.g))
      effs == EffLabelsOf(labs, ncells)
      nr == UnseenRows(train, new, Range(gt.g))
  IN [r \in 1..new.n |->
        [j \in 1..Len(labs) |-> GroupLabelVal(new, labs[j], r)] \o
        (IF nr = {} THEN <<>> ELSE [j \in 1..Len(effs) |-> IF r \in nr THEN LabelVal(new, effs[j], r) ELSE 0])]
RECURSIVE ConcatRows(_, _)
ConcatRows(ms, n) ==   \* ms: sequence of matrices with n rows each
  [r \in 1..n |-> Flat([k \in 1..Len(ms) |-> ms[k][r]])]
RECURSIVE DistinctSeq(_)
DistinctSeq(s) == IF s = <<>> THEN <<>>
                  ELSE LET rest == DistinctSeq(SubSeq(s, 1, Len(s) - 1)) IN
                         IF s[Len(s)] \in Range(rest) THEN rest ELSE Append(rest, s[Len(s)])
EvalGroupMode(form, train, new, mode) ==
  IF mode = "error" /\ UnseenRows(train, new, GroupVars(form)) # {} THEN [status |-> "raise"]
  ELSE LET ms == [j \in 1..Len(form.groups) |-> EvalGroupTerm(form, train, new, form.groups[j])]
           widths == [j \in 1..Len(ms) |-> IF new.n = 0 THEN 0 ELSE Len(ms[j][1])]
           newfac == SelectSeq(form.groups, LAMBDA gt : UnseenRows(train, new, Range(gt.g)) # {})
       IN [status |-> "ok",
           group |-> ConcatRows(ms, new.n),
           slices |-> SliceSeq(widths, 0),
           factors_new |-> DistinctSeq([j \in 1..Len(newfac) |-> newfac[j].g])]
=============================================================================
