------------------------------ MODULE LexerAbs ------------------------------
(***************************************************************************)
(* Characters -> tokens (formulae/scanner.py).  Property C01: whitespace   *)
(* between tokens never matters, unterminated quotes and a second '~' are  *)
(* refused, no character of an accepted formula is dropped.                *)
(*                                                                         *)
(* Characters are abstracted to classes:                                   *)
(*   "a" letter   "d" digit   "." period   "_" underscore   "q" '   "Q" "    *)
(*   "b" backquote   "s" blank/tab/newline/CR   "*" "/" "=" "!"            *)
(*   "<" (< or >)   "~"   "p" single-character punctuation ()[]{},+-%:|    *)
(*   "@" any character the language does not use                           *)
(*                                                                         *)
(* Abs layer: maximal munch over declaratively given token classes         *)
(* (AbsTokens).  Impl layer: the scanner's state machine, one action per   *)
(* branch of Scanner.scan_token, then the tilde check and the insertion of *)
(* the implicit intercept.                                                 *)
(***************************************************************************)
EXTENDS Naturals, Sequences, FiniteSets, TLC

Classes == {"a", "d", ".", "_", "q", "Q", "b", "s", "*", "/", "=", "!", "<", "~", "p", "@"}
Word == {"a", "d", ".", "_"}

\* end of the longest run of characters from set S starting at i (i-1 if none)
RECURSIVE RunEnd(_, _, _)
RunEnd(cs, i, S) == IF i <= Len(cs) /\ cs[i] \in S THEN RunEnd(cs, i + 1, S) ELSE i - 1
\* position of the first character from S at or after i (0 if none)
RECURSIVE Find(_, _, _)
Find(cs, i, S) == IF i > Len(cs) THEN 0 ELSE IF cs[i] \in S THEN i ELSE Find(cs, i + 1, S)
At(cs, i) == IF i <= Len(cs) THEN cs[i] ELSE ""

(* ------------------------------ Abs ------------------------------------- *)
\* the token starting at i: [kind, stop] ; kind "SKIP" for blanks, "ERR" for a refusal
AbsTokenAt(cs, i) ==
  LET c == cs[i] IN
  CASE c = "s" -> [kind |-> "SKIP", stop |-> i]
    [] c \in {"q", "Q"} -> LET j == Find(cs, i + 1, {c}) IN   \* closed by the SAME quote character
                    IF j = 0 THEN [kind |-> "ERR", stop |-> Len(cs)] ELSE [kind |-> "STRING", stop |-> j]
    [] c = "b" -> LET j == Find(cs, i + 1, {"b"}) IN
                    IF j = 0 THEN [kind |-> "ERR", stop |-> Len(cs)] ELSE [kind |-> "BQNAME", stop |-> j]
    [] c = "a" -> [kind |-> "IDENTIFIER", stop |-> RunEnd(cs, i, Word)]
    [] c = "d" -> LET e == RunEnd(cs, i, {"d"}) IN
                    IF At(cs, e + 1) = "." /\ At(cs, e + 2) = "d"
                    THEN [kind |-> "NUMBER", stop |-> RunEnd(cs, e + 2, {"d"})]
                    ELSE [kind |-> "NUMBER", stop |-> e]
    [] c = "." -> IF At(cs, i + 1) = "d" THEN [kind |-> "NUMBER", stop |-> RunEnd(cs, i + 1, {"d"})]
                  ELSE [kind |-> "PERIOD", stop |-> i]
    [] c = "*" -> IF At(cs, i + 1) = "*" THEN [kind |-> "STAR_STAR", stop |-> i + 1] ELSE [kind |-> "STAR", stop |-> i]
    [] c = "/" -> IF At(cs, i + 1) = "/" THEN [kind |-> "SLASH_SLASH", stop |-> i + 1] ELSE [kind |-> "SLASH", stop |-> i]
    [] c = "=" -> IF At(cs, i + 1) = "=" THEN [kind |-> "EQUAL_EQUAL", stop |-> i + 1] ELSE [kind |-> "EQUAL", stop |-> i]
    [] c = "!" -> IF At(cs, i + 1) = "=" THEN [kind |-> "BANG_EQUAL", stop |-> i + 1] ELSE [kind |-> "BANG", stop |-> i]
    [] c = "<" -> IF At(cs, i + 1) = "=" THEN [kind |-> "CMP_EQUAL", stop |-> i + 1] ELSE [kind |-> "CMP", stop |-> i]
    [] c = "~" -> [kind |-> "TILDE", stop |-> i]
    [] c = "p" -> [kind |-> "PUNCT", stop |-> i]
    [] OTHER -> [kind |-> "ERR", stop |-> Len(cs)]

RECURSIVE AbsScan(_, _, _)
AbsScan(cs, i, acc) ==
  IF i > Len(cs) THEN [ok |-> TRUE, toks |-> acc]
  ELSE LET t == AbsTokenAt(cs, i) IN
         IF t.kind = "ERR" THEN [ok |-> FALSE, toks |-> <<>>]
         ELSE IF t.kind = "SKIP" THEN AbsScan(cs, i + 1, acc)
         ELSE AbsScan(cs, t.stop + 1, Append(acc, <<t.kind, i, t.stop>>))

Tildes(toks) == {k \in 1..Len(toks) : toks[k][1] = "TILDE"}
\* the implicit intercept: tokens 'NUMBER 1' and 'PLUS' (positions 0,0) after the '~', or in front
Icpt == << <<"NUMBER", 0, 0>>, <<"PLUS", 0, 0>> >>
WithIntercept(toks) ==
  IF Tildes(toks) = {} THEN Icpt \o toks
  ELSE LET k == CHOOSE k \in Tildes(toks) : TRUE IN SubSeq(toks, 1, k) \o Icpt \o SubSeq(toks, k + 1, Len(toks))
\* Scanner(code).scan(): refusal for the empty string, lexical errors and more than one '~'
AbsTokens(cs) ==
  IF Len(cs) = 0 THEN [ok |-> FALSE, toks |-> <<>>]
  ELSE LET r == AbsScan(cs, 1, <<>>) IN
         IF ~r.ok \/ Cardinality(Tildes(r.toks)) > 1 THEN [ok |-> FALSE, toks |-> <<>>]
         ELSE [ok |-> TRUE, toks |-> WithIntercept(r.toks)]

\* blanks are only separators: deleting a blank that is not needed to separate two word-like
\* lexemes or the halves of a two-character operator never changes the tokens
Kinds(toks) == [k \in 1..Len(toks) |-> toks[k][1]]
=============================================================================
