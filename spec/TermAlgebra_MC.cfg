SPECIFICATION Spec
CONSTANTS
  Atoms = {"a", "b", "F"}
  GAtoms = {"g", "h"}
  AtomOrder <- AtomOrderDef
  HashBad = {"F"}
  HashBroken = FALSE
  DivByTerms = TRUE
  MulShortcut = FALSE
  CtorDedup = TRUE
  TermBySet = TRUE
  MaxOps = 2
  DoExport = FALSE
INVARIANT Refines
INVARIANT NoExcOutside
INVARIANT Laws
INVARIANT PowLaw
INVARIANT GroupLaw
INVARIANT Export
PROPERTY AddIsUnion
CHECK_DEADLOCK FALSE
