--------------------------- MODULE TermAlgebra_MC ---------------------------
(* Enumerates the documented formula language with a stack machine that builds expression    *)
(* trees in post-order -- the order in which Resolver.visitBinaryExpr combines values -- so   *)
(* that every formula with at most MaxOps operators is reached exactly once (one state per    *)
(* partial construction, explored in parallel).  The bottom stack entry is the scanner's      *)
(* implicit '1'.  A state whose stack holds one complete right-hand side is a test case.      *)
EXTENDS TermAlgebra, Json, IOUtils, CSV
CONSTANTS Atoms, GAtoms, MaxOps, DoExport
AtomOrderDef == <<"a", "b", "c", "d", "F", "H", "Q", "K", "L", "M", "N", "O", "P", "R", "S", "U", "V", "W", "g", "h", "k">>   \* cfg: AtomOrder <- AtomOrderDef
VARIABLE st    \* stack of [t: tree, k: kind, n: operators]
\* kinds: "top" right-hand side chain (bottom), "te" term expression, "lit" 0/1, "neg1",
\*        "ch" additive chain with literals (effect side), "ge" grouping expression, "grp" (e|g)
E(t, k, n) == [t |-> t, k |-> k, n |-> n]
One == <<"one">>
Init == st = << E(One, "top", 0) >>

Budget == LET RECURSIVE S(_)
              S(k) == IF k = 0 THEN 0 ELSE st[k].n + S(k - 1)
          IN S(Len(st)) + (Len(st) - 1)
Top == st[Len(st)]
Snd == st[Len(st) - 1]
Pop2Push(e) == st' = Append(SubSeq(st, 1, Len(st) - 2), e)

Push ==
  /\ Budget + 1 <= MaxOps
  /\ \/ \E a \in Atoms : st' = Append(st, E(<<"v", a>>, "te", 0))
     \/ \E a \in GAtoms : st' = Append(st, E(<<"v", a>>, "ge", 0))
     \/ \E l \in {0, 1} : st' = Append(st, E(<<"lit", l>>, "lit", 0))
     \/ (Top.k = "top" /\ Top.t = One /\ st' = Append(st, E(<<"neg1">>, "neg1", 0)))   \* '-1' only as first item
PushNeg1Effect ==  \* '-1' as the first item of an effect side
  /\ Budget + 1 <= MaxOps
  /\ st' = Append(st, E(<<"neg1">>, "neg1", 0))
\* binary operator on the two topmost entries
Apply ==
  /\ Len(st) >= 2
  /\ LET l == Snd
         r == Top
         n == l.n + r.n + 1
         mk(o, k) == Pop2Push(E(<<"op", o, l.t, r.t>>, k, n))
     IN \/ (l.k = "te" /\ r.k = "te" /\ \E o \in {"+", "-", ":", "*", "/"} : mk(o, "te"))
        \/ (l.k = "ge" /\ r.k = "ge" /\ \E o \in {"+", ":", "/"} : mk(o, "ge"))
        \* effect-side chains: a literal somewhere
        \/ (l.k \in {"te", "lit", "neg1", "ch"} /\ r.k \in {"te", "lit"} /\ ~(l.k = "te" /\ r.k = "te") /\ mk("+", "ch"))
        \/ (l.k \in {"te", "ch"} /\ HasTerm(l.t) /\ ((r.k = "te" /\ l.k # "te") \/ (r.k = "lit" /\ r.t[2] = 1)) /\ mk("-", "ch"))
        \* the right-hand side chain
        \/ (l.k = "top" /\ r.k \in {"te", "lit", "neg1", "grp"} /\ mk("+", "top"))
        \/ (l.k = "top" /\ HasTerm(l.t) /\ (r.k = "te" \/ r.k = "grp" \/ (r.k = "lit" /\ r.t[2] = 1)) /\ mk("-", "top"))
Pow ==
  /\ Top.k = "te" /\ Budget + 1 <= MaxOps
  /\ \E m \in {2, 3} : st' = Append(SubSeq(st, 1, Len(st) - 1), E(<<"pow", Top.t, m>>, "te", Top.n + 1))
Bar ==
  /\ Len(st) >= 2
  /\ Snd.k \in {"te", "lit", "neg1", "ch"} /\ Top.k = "ge"
  /\ LET g == <<"grp", Snd.t, Top.t>> IN WellFormed(g) /\ Pop2Push(E(g, "grp", Snd.n + Top.n + 1))
Next == Push \/ PushNeg1Effect \/ Apply \/ Pow \/ Bar
Spec == Init /\ [][Next]_st

Complete == Len(st) = 1 /\ st[1].t # One
F == st[1].t

(* ---- theorems: the Impl layer refines the Abs layer on the documented language ---- *)
Refines ==
  Complete =>
    LET i == ImplDen(IEval(F, TermBySet)) IN
      SameDen(i, Den(F)) \/ OrderSensitive(F) \/ LateLiteral(F) \/ MulEqualModels(F)
\* the deviation class is not vacuous and not over-wide: outside it and outside order-sensitive
\* inputs the code's algorithm never raises
NoExcOutside == Complete => (ImplDen(IEval(F, TermBySet)).exc => (LateLiteral(F) \/ OrderSensitive(F)))

(* ---- theorems about the Abs layer ---- *)
RECURSIVE Subs(_)
Subs(e) ==
  {e} \cup (CASE e[1] = "op" -> Subs(e[3]) \cup Subs(e[4])
              [] e[1] = "pow" -> Subs(e[2])
              [] e[1] = "grp" -> Subs(e[2]) \cup Subs(e[3])
              [] OTHER -> {})
RECURSIVE IsTE(_)
IsTE(e) == CASE e[1] = "v" -> TRUE [] e[1] = "pow" -> IsTE(e[2]) [] e[1] = "op" -> IsTE(e[3]) /\ IsTE(e[4]) [] OTHER -> FALSE
Laws ==
  Complete =>
  \A e \in Subs(F) :
    (e[1] = "op" /\ IsTE(e)) =>
      LET l == e[3] r == e[4] IN
        /\ (e[2] = "*") => DT(e) = DT(<<"op", "+", <<"op", "+", l, r>>, <<"op", ":", l, r>>>>)
        /\ (e[2] = ":") => DT(e) = DT(<<"op", ":", r, l>>)
        /\ (e[2] = "+") => DT(e) = DT(<<"op", "+", r, l>>)
        /\ (e[2] = "*") => DT(e) = DT(<<"op", "*", r, l>>)
        /\ (e[2] = "/" /\ Cardinality(DT(l)) = 1) => DT(e) = DT(<<"op", "+", l, <<"op", ":", l, r>>>>)
        /\ (e[2] = "+" \/ (e[2] # "-" /\ Cardinality(DT(l)) = 1)) => DT(<<"op", e[2], l, l>>) = DT(l)
PowLaw ==
  Complete => \A e \in Subs(F) : (e[1] = "pow" /\ e[3] = 2) =>
     DT(e) = DT(e[2]) \cup { s \cup t : s \in DT(e[2]), t \in DT(e[2]) }
GroupLaw ==
  Complete => \A e \in Subs(F) : (e[1] = "grp" /\ e[3][1] = "op" /\ e[3][2] = "+") =>
     DG(e) = DG(<<"grp", e[2], e[3][3]>>) \cup DG(<<"grp", e[2], e[3][4]>>)
\* appending '+ term expression' to a right-hand side is set union and keeps the intercept
AddIsUnion ==
  [][ (Len(st) = 2 /\ Len(st') = 1 /\ st[1].k = "top" /\ st[2].k = "te" /\ st'[1].t[2] = "+") =>
        LET a == Den(st[1].t) b == Den(st'[1].t) IN
          b.terms = a.terms \cup DT(st[2].t) /\ b.groups = a.groups /\ b.icpt = a.icpt ]_st

\* the innermost operator application that raises, as <<operator, left class, right class>>
RECURSIVE XSite(_)
XSite(e) ==
  IF e[1] \in {"op", "grp"}
  THEN LET l == IF e[1] = "op" THEN e[3] ELSE e[2]
           r == IF e[1] = "op" THEN e[4] ELSE e[3]
           lv == IEval(l, TermBySet)
           rv == IEval(r, TermBySet)
       IN IF lv.cls = "X" THEN XSite(l) ELSE IF rv.cls = "X" THEN XSite(r)
          ELSE <<IF e[1] = "op" THEN e[2] ELSE "|", lv.cls, rv.cls>>
  ELSE IF e[1] = "pow" THEN (IF IEval(e[2], TermBySet).cls = "X" THEN XSite(e[2]) ELSE <<"**", IEval(e[2], TermBySet).cls, "n">>)
  ELSE <<"?", "?", "?">>
Case ==
  LET d == Den(F)
      i == ImplDen(IEval(F, TermBySet))
  IN [f |-> F, icpt |-> d.icpt, terms |-> d.terms, groups |-> d.groups,
      order_sensitive |-> OrderSensitive(F), late_literal |-> LateLiteral(F), mul_equal |-> MulEqualModels(F),
      impl_exc |-> i.exc, impl_same |-> SameDen(i, d),
      xsite |-> IF i.exc THEN XSite(F) ELSE <<>>]
Export == (DoExport /\ Complete) => CSVWrite("%1$s", <<ToJson(Case)>>, IOEnv.FV_OUT)
=============================================================================
