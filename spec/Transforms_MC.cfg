SPECIFICATION Spec
CONSTANTS
  MinLen = 3
  MaxLen = 4
  MaxVal = 3
  MaxDegree = 3
  DoExport = FALSE
  Mode = "poly"
INVARIANT CenterScale
INVARIANT Poly
INVARIANT BS
INVARIANT Decision
INVARIANT Export
CHECK_DEADLOCK FALSE
