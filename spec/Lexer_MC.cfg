SPECIFICATION Spec
CONSTANTS
  MaxLen = 4
  QuoteStrict = FALSE
  DoExport = FALSE
INVARIANT Sound
INVARIANT Complete
INVARIANT Lossless
INVARIANT NoOverlap
INVARIANT AtMostOneTilde
INVARIANT Progress
INVARIANT BlankNeutral
INVARIANT Export
CHECK_DEADLOCK FALSE
