------------------------------ MODULE Lexer_MC ------------------------------
EXTENDS Lexer, Json, IOUtils, CSV
CONSTANT DoExport
Export == (DoExport /\ Terminal) => CSVWrite("%1$s", <<ToJson([cs |-> cs, ok |-> st = "ok", toks |-> toks])>>, IOEnv.FV_OUT)
=============================================================================
