---------------------------- MODULE Transforms_MC ----------------------------
(* Small-scope exploration: every integer vector x of length MinLen..MaxLen over 0..MaxVal    *)
(* (training data), a fixed second vector (later data), every parameter combination.          *)
EXTENDS Transforms, Json, IOUtils, CSV
CONSTANTS MinLen, MaxLen, MaxVal, MaxDegree, DoExport, Mode
VARIABLES x, par
Vectors == UNION {[1..n -> 0..MaxVal] : n \in MinLen..MaxLen}
Later == <<0, 1, MaxVal, 2>>     \* later data (not all inside the training range for some x)
\* lbo / ubo: how far the explicit boundary knots lie outside the extremes of the training data (0: not passed)
BSParams == {p \in [ninner : 0..2, degree : 0..MaxDegree, intercept : BOOLEAN, lbo : 0..1, ubo : 0..1] :
               p.ninner + p.degree + (IF p.intercept THEN 1 ELSE 0) >= 1}
PolyParams == {[degree |-> d] : d \in 1..MaxDegree}
DecisionParams ==
  {[df |-> a, nk |-> k, degree |-> d, degree_is_int |-> di, df_is_int |-> fi, intercept |-> b, bounds_ok |-> bo, knots_inside |-> ki] :
     a \in {-1, 1, 2, 3, 4, 5, 6}, k \in {-1, 0, 1, 2, 3}, d \in {-1, 0, 1, 2, 3}, di \in BOOLEAN, fi \in BOOLEAN, b \in BOOLEAN, bo \in BOOLEAN, ki \in BOOLEAN}
Init ==
  \/ (Mode = "bs" /\ x \in {v \in Vectors : Min(v) < Max(v)} /\ par \in BSParams)
  \/ (Mode = "poly" /\ x \in Vectors /\ par \in PolyParams)
  \/ (Mode = "decision" /\ x = <<0>> /\ par \in DecisionParams)
Next == UNCHANGED <<x, par>>
Spec == Init /\ [][Next]_<<x, par>>

(* ---- theorems ---- *)
CenterScale == Mode = "poly" => (CenterMeanZero(x) /\ ScaleUnitVariance(x))
Poly == Mode = "poly" => PolyOrthogonal(x, par.degree)
LB == Min(x) - par.lbo
UB == Max(x) + par.ubo
InsideRows(y) == SelectSeq(y, LAMBDA v : LB <= v /\ v <= UB)
LaterB == <<0, 1, MaxVal, 2, MaxVal + 1>>
BS ==
  Mode = "bs" =>
    LET m == BSMatrixB(x, x, par.ninner, par.degree, par.intercept, LB, UB)
        ncols == par.ninner + par.degree + (IF par.intercept THEN 1 ELSE 0)
    IN /\ \A r \in 1..Len(m) : Len(m[r]) = ncols
       /\ BSNonNegative(m)
       /\ par.intercept => BSPartitionOfUnity(m)
       \* later data inside the boundary knots: same contracts with the remembered knots
       /\ LET m2 == BSMatrixB(x, InsideRows(LaterB), par.ninner, par.degree, par.intercept, LB, UB)
          IN BSNonNegative(m2) /\ (par.intercept => BSPartitionOfUnity(m2))
Decision == Mode = "decision" => BSDecisionImpl(par) = BSDecisionAbs(par)

Seq2(m) == m
Case ==
  CASE Mode = "bs" ->
         [mode |-> Mode, x |-> x, par |-> par, later |-> InsideRows(LaterB), lb |-> LB, ub |-> UB,
          train |-> Seq2(BSMatrixB(x, x, par.ninner, par.degree, par.intercept, LB, UB)),
          new |-> Seq2(BSMatrixB(x, InsideRows(LaterB), par.ninner, par.degree, par.intercept, LB, UB)),
          knots |-> InnerKnots(x, par.ninner)]
    [] Mode = "poly" ->
         [mode |-> Mode, x |-> x, par |-> par, later |-> Later, defined |-> PolyDefined(x, par.degree),
          center |-> Center(x, x), center_new |-> Center(x, Later),
          var |-> Var(x), scale_sq |-> IF Var(x) = <<0, 1>> THEN <<>> ELSE ScaleSq(x, x),
          scale_sq_new |-> IF Var(x) = <<0, 1>> THEN <<>> ELSE ScaleSq(x, Later),
          scale_sign_new |-> [k \in 1..Len(Later) |-> Sign(Center(x, Later)[k])],
          poly_sq |-> IF PolyDefined(x, par.degree) THEN [i \in 1..par.degree |-> PolySq(x, par.degree, i)] ELSE <<>>,
          poly_sign |-> IF PolyDefined(x, par.degree) THEN [i \in 1..par.degree |-> PolySign(x, par.degree, i)] ELSE <<>>]
    [] OTHER -> [mode |-> Mode, par |-> par, abs |-> BSDecisionAbs(par), impl |-> BSDecisionImpl(par),
                 columns |-> IF BSDecisionAbs(par) = "accept" THEN BSColumns(par) ELSE 0]
Export == DoExport => CSVWrite("%1$s", <<ToJson(Case)>>, IOEnv.FV_OUT)
=============================================================================
