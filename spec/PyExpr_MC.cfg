SPECIFICATION Spec
CONSTANTS
  EofCheck = TRUE
  MaxLen = 5
  DoExport = FALSE
  Kinds = {"IDENTIFIER", "NUMBER", "PLUS", "MINUS", "STAR", "SLASH", "STAR_STAR", "LEFT_PAREN", "RIGHT_PAREN", "LESS"}
INVARIANT PythonAccepted
INVARIANT DifferenceTheorem
INVARIANT PyYield
INVARIANT Export
CHECK_DEADLOCK FALSE
