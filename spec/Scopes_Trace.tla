----------------------------- MODULE Scopes_Trace -----------------------------
(* Judge for recorded name look-ups (C->S, path conformance of C11): the harness passes a      *)
(* logging dictionary as extra_namespace, the last scope of the chain.  The spec's machine      *)
(* probes a scope only after every earlier scope missed, so extra_namespace is asked for the    *)
(* probed name iff no earlier scope of the chain defines it.                                    *)
(* event = [id, role, defined (scopes that define the name), probed (extra_namespace was asked  *)
(* for the name), winner (observed)]                                                            *)
EXTENDS Naturals, Sequences, FiniteSets, TLC, Json, IOUtils
VARIABLES i, nbad
Ev == ndJsonDeserialize(IOEnv.FV_TRACE)
AllScopes == <<"data", "builtin", "locals", "globals", "extra">>
Chain(role) == IF role = "arg" THEN AllScopes ELSE SubSeq(AllScopes, 2, 5)
SetOf(s) == {s[k] : k \in 1..Len(s)}
\* replay of the machine of Scopes.tla: the sequence of scopes probed until the first hit
RECURSIVE Probes(_, _, _)
Probes(ch, k, defined) ==
  IF k > Len(ch) THEN <<>>
  ELSE IF ch[k] \in defined THEN <<ch[k]>> ELSE <<ch[k]>> \o Probes(ch, k + 1, defined)
Clause(e) ==
  LET ps == Probes(Chain(e.role), 1, SetOf(e.defined))
      reaches == "extra" \in SetOf(ps)
      want == IF Len(ps) > 0 /\ ps[Len(ps)] \in SetOf(e.defined) THEN ps[Len(ps)] ELSE "raise"
  IN IF e.winner # want THEN "wrong_scope_wins"
     ELSE IF e.probed /\ ~reaches THEN "later_scope_probed_although_an_earlier_one_defines_the_name"
     ELSE IF ~e.probed /\ reaches THEN "last_scope_never_probed"
     ELSE "none"
Init == i = 1 /\ nbad = 0
Step ==
  /\ i <= Len(Ev)
  /\ LET c == Clause(Ev[i]) IN
       /\ (c # "none") => PrintT(<<"FV", "bad", Ev[i].id, c>>)
       /\ nbad' = IF c = "none" THEN nbad ELSE nbad + 1
  /\ i' = i + 1
Spec == Init /\ [][Step]_<<i, nbad>>
Consumed == TLCGet("stats").diameter = Len(Ev) + 1 /\ PrintT(<<"FV", "done", Len(Ev)>>)
=============================================================================
