SPECIFICATION Spec
CONSTANTS
  DoExport = FALSE
INVARIANT FirstMatchWins
INVARIANT DecoysIrrelevant
INVARIANT NoShadowing
INVARIANT Export
CHECK_DEADLOCK FALSE
