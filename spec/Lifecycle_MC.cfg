SPECIFICATION Spec
CONSTANTS
  Formulas = {1, 2}
  TrainFrames = {1, 2}
  NewFrames = {3, 4}
  Modes = {"error", "warning", "silent"}
  BadValues = {"bogus"}
  MaxLen = 3
  UserTransforms = {"ureg"}
  DoExport = FALSE
INVARIANT HistoryIndependent
INVARIANT ConfigValid
INVARIANT Export
PROPERTY Frozen
PROPERTY ConfigDiscipline
PROPERTY RegistryDiscipline
CHECK_DEADLOCK FALSE
