SPECIFICATION Spec
CONSTANTS
  EofCheck = TRUE
CHECK_DEADLOCK FALSE
POSTCONDITION Consumed
