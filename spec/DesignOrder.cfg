SPECIFICATION Spec
CONSTANTS
  MaxComps = 4
  MaxWidth = 4
  DoExport = FALSE
INVARIANT SameOrder
INVARIANT AllDistinct
INVARIANT GroupOrder
INVARIANT Export
CHECK_DEADLOCK FALSE
