------------------------------ MODULE CallKinds ------------------------------
(***************************************************************************)
(* What becomes of the value a call returns (C04 columns of call terms,    *)
(* C15 response kinds, C16 roles of offset / prop, C06 the same path on    *)
(* new data).  A call term goes through three steps, each one action:      *)
(*   SetType  the call is evaluated and the KIND of the term is decided    *)
(*            from the type of the value (Call.set_type: an if-chain)      *)
(*   SetData  the value is turned into columns according to the kind, the  *)
(*            role of the term (predictor / response) and, for factors,    *)
(*            whether the coding spans the intercept (Call.set_data)       *)
(*   EvalNew  the call is evaluated again on new data and must take the    *)
(*            path of the kind decided at training time                    *)
(*                                                                         *)
(* Abs (documented behaviour): numeric arrays and Series give their values *)
(* (one column per column); strings and categoricals give treatment-coded  *)
(* indicators over the sorted levels, or the declared order of an ORDERED  *)
(* categorical; a CategoricalBox (C / T / S) gives its own contrast over   *)
(* its own levels; offset() only as predictor; prop() only as response;    *)
(* everything else is refused.  The kind depends on the value only.        *)
(***************************************************************************)
EXTENDS Naturals, Sequences, FiniteSets, TLC

\* the types of value a callee may return
Types == {"ndarray1", "ndarray2", "series_num", "series_bool", "str_array", "str_series",
          "cat_unordered", "cat_ordered", "box_default", "box_sum", "box_levels",
          "offset_col", "offset_const", "prop", "list", "dict", "none", "scalar"}
Roles == {"predictor", "response"}

VARIABLES cfg,      \* [t: type, role, icpt: the coding of a factor need not span the intercept]
          phase,    \* "init" | "typed" | "ready" | "evaluated" | "refused"
          kind,     \* the kind decided by SetType
          out       \* [coding, order, width, path]: what SetData produced / which path EvalNew took
vars == <<cfg, phase, kind, out>>

Cfgs == {[t |-> t, role |-> r, icpt |-> i] : t \in Types, r \in Roles, i \in BOOLEAN}
None == [coding |-> "-", order |-> "-", width |-> 0, path |-> "-"]
Init == cfg \in Cfgs /\ phase = "init" /\ kind = "-" /\ out = None

(* ------------------------------ Impl ------------------------------------ *)
IsNumericDtype(t) == t \in {"ndarray1", "ndarray2", "series_num", "series_bool"}
IsStringOrCategorical(t) == t \in {"str_array", "str_series", "cat_unordered", "cat_ordered"}
IsBox(t) == t \in {"box_default", "box_sum", "box_levels"}
\* Call.set_type: the if-chain, in the order of the code
SetType ==
  /\ phase = "init"
  /\ LET t == cfg.t IN
       IF IsNumericDtype(t) THEN kind' = "numeric" /\ phase' = "typed"
       ELSE IF IsStringOrCategorical(t) \/ IsBox(t) THEN kind' = "categoric" /\ phase' = "typed"
       ELSE IF t \in {"offset_col", "offset_const"} THEN kind' = "offset" /\ phase' = "typed"
       ELSE IF t = "prop" THEN kind' = "proportion" /\ phase' = "typed"
       ELSE kind' = "-" /\ phase' = "refused"
  /\ UNCHANGED <<cfg, out>>
\* Call.set_data
Reduced == cfg.role = "predictor" /\ cfg.icpt     \* a response always gets one column per level
SetData ==
  /\ phase = "typed"
  /\ CASE kind = "numeric" ->
            /\ out' = [coding |-> "values", order |-> "-", width |-> IF cfg.t = "ndarray2" THEN 2 ELSE 1, path |-> "numeric"]
            /\ phase' = "ready"
       [] kind = "categoric" ->
            /\ out' = [coding |-> (IF cfg.t = "box_sum" THEN "sum" ELSE "treatment") \o (IF Reduced THEN "_reduced" ELSE "_full"),
                       order |-> (CASE cfg.t = "cat_ordered" -> "declared"
                                    [] cfg.t = "box_levels" -> "given"
                                    [] OTHER -> "sorted"),
                       width |-> IF Reduced THEN 2 ELSE 3,      \* three levels in the test data
                       path |-> IF IsBox(cfg.t) THEN "box" ELSE "categoric"]
            /\ phase' = "ready"
       [] kind = "offset" ->
            IF cfg.role = "response" THEN phase' = "refused" /\ UNCHANGED out
            ELSE out' = [coding |-> "values", order |-> "-", width |-> 1, path |-> "offset"] /\ phase' = "ready"
       [] kind = "proportion" ->
            IF cfg.role # "response" THEN phase' = "refused" /\ UNCHANGED out
            ELSE out' = [coding |-> "successes_trials", order |-> "-", width |-> 2, path |-> "proportion"] /\ phase' = "ready"
  /\ UNCHANGED <<cfg, kind>>
\* Call.eval_new_data: dispatch on the kind fixed at training time
EvalNew ==
  /\ phase = "ready"
  /\ out' = [out EXCEPT !.path = CASE kind = "numeric" -> "numeric"
                                  [] kind = "categoric" -> (IF IsBox(cfg.t) THEN "box" ELSE "categoric")
                                  [] kind = "offset" -> "offset"
                                  [] kind = "proportion" -> "proportion"]
  /\ phase' = "evaluated"
  /\ UNCHANGED <<cfg, kind>>
Next == SetType \/ SetData \/ EvalNew
Spec == Init /\ [][Next]_vars

(* ------------------------------ Abs ------------------------------------- *)
AbsAccepted(c) ==
  CASE c.t \in {"list", "dict", "none", "scalar"} -> FALSE
    [] c.t \in {"offset_col", "offset_const"} -> c.role = "predictor"
    [] c.t = "prop" -> c.role = "response"
    [] OTHER -> TRUE
AbsCoding(c) ==
  CASE c.t \in {"ndarray1", "ndarray2", "series_num", "series_bool", "offset_col", "offset_const"} -> "values"
    [] c.t = "prop" -> "successes_trials"
    [] c.t = "box_sum" -> IF c.role = "predictor" /\ c.icpt THEN "sum_reduced" ELSE "sum_full"
    [] OTHER -> IF c.role = "predictor" /\ c.icpt THEN "treatment_reduced" ELSE "treatment_full"
AbsOrder(c) ==
  CASE c.t = "cat_ordered" -> "declared"
    [] c.t = "box_levels" -> "given"
    [] c.t \in {"str_array", "str_series", "cat_unordered", "box_default", "box_sum"} -> "sorted"
    [] OTHER -> "-"
Terminal == phase \in {"evaluated", "refused"}
\* the transcription agrees with the documented behaviour on every (type, role, intercept)
Meaning == Terminal =>
  /\ (phase = "refused") = ~AbsAccepted(cfg)
  /\ (phase = "evaluated") => (out.coding = AbsCoding(cfg) /\ out.order = AbsOrder(cfg))
\* the kind depends on the value only (not on the role or the intercept), and new data take the
\* path chosen at training time
AbsKind(t) ==
  CASE t \in {"ndarray1", "ndarray2", "series_num", "series_bool"} -> "numeric"
    [] t \in {"str_array", "str_series", "cat_unordered", "cat_ordered", "box_default", "box_sum", "box_levels"} -> "categoric"
    [] t \in {"offset_col", "offset_const"} -> "offset"
    [] t = "prop" -> "proportion"
    [] OTHER -> "-"
KindByValue == phase # "init" => kind = AbsKind(cfg.t)
SamePath == [][phase = "ready" /\ phase' = "evaluated" => out'.path = out.path]_vars
KindFixed == [][kind # "-" => kind' = kind]_vars
=============================================================================
