----------------------------- MODULE Coding_Trace -----------------------------
(* Judge for contrast matrices returned by the real Treatment / Sum objects (C->S):           *)
(* event = [id, kind: "treatment"|"sum", full: BOOLEAN, n, pos (reference / omitted level,    *)
(*          1-based), m: rows, labels: level numbers (0 = "mean")]                            *)
EXTENDS Coding, Json, IOUtils
VARIABLES i, nbad
Ev == ndJsonDeserialize(IOEnv.FV_TRACE)
Clause(e) ==
  IF e.kind = "treatment" /\ ~e.full THEN (IF TreatmentReducedOK(e.n, e.pos, e.m, e.labels) THEN "none" ELSE "treatment_reduced_invalid")
  ELSE IF e.kind = "treatment" THEN (IF TreatmentFullOK(e.n, e.m, e.labels) THEN "none" ELSE "treatment_full_invalid")
  ELSE IF ~e.full THEN (IF SumReducedOK(e.n, e.pos, e.m, e.labels) THEN "none" ELSE "sum_reduced_invalid")
  ELSE (IF SumFullOK(e.n, e.pos, e.m, e.labels) THEN "none" ELSE "sum_full_invalid")
Init == i = 1 /\ nbad = 0
Step ==
  /\ i <= Len(Ev)
  /\ LET c == Clause(Ev[i]) IN
       /\ (c # "none") => PrintT(<<"FV", "bad", Ev[i].id, c>>)
       /\ nbad' = IF c = "none" THEN nbad ELSE nbad + 1
  /\ i' = i + 1
Spec == Init /\ [][Step]_<<i, nbad>>
Consumed == TLCGet("stats").diameter = Len(Ev) + 1 /\ PrintT(<<"FV", "done", Len(Ev)>>)
=============================================================================
