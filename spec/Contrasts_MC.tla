---------------------------- MODULE Contrasts_MC ----------------------------
(* Every ordered family of at most MaxTerms terms over the factor universe, with and without  *)
(* intercept: one state per family (prefixes share the work).  The invariant says that the    *)
(* modelled algorithm covers every required atom exactly once; Export writes each family with  *)
(* its required atoms for the rank check against the real design matrix.                      *)
EXTENDS Contrasts, Json, IOUtils, CSV
CONSTANTS Factors,     \* sequence of factor names (canonical order inside a term)  -- cfg: Factors <- FactorsDef
          MaxArity, MaxTerms, DoExport, ExtraTerms
VARIABLES terms, icpt
vars == <<terms, icpt>>

\* all terms: non-empty subsequences of Factors with at most MaxArity members (+ ExtraTerms, e.g. other factor orders)
SubseqOf(S) == SelectSeq(Factors, LAMBDA f : f \in S)
Universe == { SubseqOf(S) : S \in {S \in SUBSET SetOf(Factors) : S # {} /\ Cardinality(S) <= MaxArity} } \cup ExtraTerms
Init == terms = <<>> /\ icpt \in BOOLEAN
Add == /\ Len(terms) < MaxTerms
       /\ \E t \in Universe : (\A k \in 1..Len(terms) : SetOf(terms[k]) # SetOf(t)) /\ terms' = Append(terms, t)
       /\ UNCHANGED icpt
Spec == Init /\ [][Add]_vars

NonEmpty == Len(terms) >= 1
\* residual deviation class: a numeric part written in another factor order than the term that
\* should be recognised as its margin ('z:x + f:x:z')
NumericOrderMismatch ==
  \E a, b \in SetOf(terms) : Cats(a) = <<>> /\ Len(a) >= 2 /\ Cats(b) # <<>> /\ SetOf(Nums(b)) = SetOf(a) /\ Nums(b) # a
Exact == NonEmpty => (ImplExact(terms, icpt) \/ (~NumericBySet /\ NumericOrderMismatch))
\* atoms theory sanity: coding every factor of every term fully covers exactly the closure,
\* each atom as often as it has super-terms (so 'all full' is exact iff no two terms overlap)
AllFullCoversReq ==
  NonEmpty => LET blocks == [k \in 1..Len(terms) |-> <<terms[k], SetOf(Cats(terms[k]))>>] IN
                UNION {Covers(blocks[k][1], blocks[k][2]) : k \in 1..Len(blocks)} \cup (IF icpt THEN {Atom({}, {})} ELSE {})
                  = ReqAtoms(terms, icpt)
Case ==
  LET r == ImplCoding(terms, icpt) IN
    [terms |-> terms, icpt |-> icpt,
     atoms |-> {<<a[1], a[2]>> : a \in ReqAtoms(terms, icpt)},
     impl_status |-> r.status, impl_exact |-> ImplExact(terms, icpt), final_terms |-> r.terms,
     order_mismatch |-> NumericOrderMismatch,
     simple_rule_exact |-> SimpleRuleExact(terms, icpt)]
Export == (DoExport /\ NonEmpty) => CSVWrite("%1$s", <<ToJson(Case)>>, IOEnv.FV_OUT)
FactorsDef4 == <<"f", "g", "h", "x">>
FactorsDef5 == <<"f", "g", "h", "x", "z">>
FactorsCat4 == <<"f", "g", "h", "k">>
FactorsCat6 == <<"f", "g", "h", "k", "m", "n">>     \* six categorical factors (two disjoint three-way interactions)
FactorsNum3 == <<"f", "x", "z", "w">>               \* one factor and three numeric variables
NoExtra == {}
SwapExtra == { <<"z", "x">>, <<"g", "f">>, <<"x", "f">> }
=============================================================================
