SPECIFICATION Spec
CONSTANTS
  N = 3
  NF = 3
  NG = 2
  XFull = FALSE
  DoExport = FALSE
  NAOps = TRUE
  PermOps = TRUE
  MaxSel = 2
  UnseenOps = TRUE
  SubsetOps = TRUE
INVARIANT SubsetReproduces
INVARIANT ShapeOK
INVARIANT UnseenTheorem
INVARIANT GroupBlock
INVARIANT Export
PROPERTY PermEquivariant
PROPERTY NATheorem
PROPERTY UnusedIgnored
CHECK_DEADLOCK FALSE
