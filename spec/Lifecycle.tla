------------------------------ MODULE Lifecycle ------------------------------
(***************************************************************************)
(* Histories of API calls (C07; also the frozen-ness used by C06/C10).     *)
(*                                                                         *)
(* Abs: the value of evaluating part p of the design (f, D) on frame F     *)
(* under mode m is Ref(f, D, p, F, m) -- an uninterpreted function of its  *)
(* arguments, and nothing else.                                            *)
(* Impl: what the code keeps.  A design owns cells: the frame its stateful *)
(* transforms were fitted on (fit) guarded by params_set, its levels and   *)
(* slices; the process owns config and the transform registry.  Build      *)
(* creates cells; evaluate_new_data reads them (and would re-fit if        *)
(* params_set were false), returns a new object that ALIASES the slices of *)
(* a common matrix and rebuilds those of a group matrix; config[...] = v   *)
(* writes config iff v is a documented value.                              *)
(***************************************************************************)
EXTENDS Naturals, Sequences, FiniteSets, TLC
CONSTANTS Formulas, TrainFrames, NewFrames, Modes, BadValues, MaxLen, UserTransforms
VARIABLES config, designs, objs, hist, registry
vars == <<config, designs, objs, hist, registry>>

Ref(f, D, p, F, m) == <<"val", f, D, p, F, m>>

Init == config = "error" /\ designs = <<>> /\ objs = <<>> /\ hist = <<>> /\ registry = {}
Room == Len(hist) < MaxLen

Build(f, D) ==
  /\ Room
  /\ designs' = Append(designs, [f |-> f, D |-> D, fit |-> D, params_set |-> TRUE, slices |-> <<"slices", f, D>>])
  /\ hist' = Append(hist, [op |-> "build", f |-> f, D |-> D])
  /\ UNCHANGED <<config, objs, registry>>
\* evaluate_new_data on part p of design k
Eval(k, p, F) ==
  /\ Room
  /\ LET d == designs[k]
         fit == IF d.params_set THEN d.fit ELSE F       \* a stateful transform fits only once
     IN /\ objs' = Append(objs, [d |-> k, p |-> p, F |-> F, m |-> config,
                                 val |-> Ref(d.f, fit, p, F, config),
                                 slices |-> IF p = "common" THEN d.slices ELSE <<"slices", d.f, fit, F>>])
        /\ designs' = [designs EXCEPT ![k].fit = fit, ![k].params_set = TRUE]
  /\ hist' = Append(hist, [op |-> "eval", d |-> k, p |-> p, F |-> F])
  /\ UNCHANGED <<config, registry>>
SetConfig(v) ==
  /\ Room
  /\ config' = IF v \in Modes THEN v ELSE config      \* an undocumented value is refused
  /\ hist' = Append(hist, [op |-> "config", v |-> v])
  /\ UNCHANGED <<designs, objs, registry>>
\* register_stateful_transform(cls): adds a name to the process-wide registry of transforms
Register(name) ==
  /\ Room /\ name \notin registry
  /\ registry' = registry \cup {name}
  /\ hist' = Append(hist, [op |-> "register", v |-> name])
  /\ UNCHANGED <<config, designs, objs>>
Next ==
  \/ \E f \in Formulas, D \in TrainFrames : Build(f, D)
  \/ \E k \in 1..Len(designs), p \in {"common", "group"}, F \in NewFrames \cup TrainFrames : Eval(k, p, F)
  \/ \E v \in Modes \cup BadValues : SetConfig(v)
  \/ \E nm \in UserTransforms : Register(nm)
Spec == Init /\ [][Next]_vars

(* ---- properties ---- *)
\* existing designs and earlier results never change
Frozen == [][ /\ \A k \in 1..Len(designs) : designs'[k] = designs[k]
              /\ \A k \in 1..Len(objs) : objs'[k] = objs[k] ]_vars
\* every result depends only on its design, its frame and the mode in force -- not on the history
HistoryIndependent ==
  \A k \in 1..Len(objs) :
    LET o == objs[k] d == designs[o.d] IN o.val = Ref(d.f, d.D, o.p, o.F, o.m)
\* the configuration changes only through an assignment of a documented value
ConfigDiscipline ==
  [][ config' # config => (hist'[Len(hist')].op = "config" /\ hist'[Len(hist')].v \in Modes /\ config' = hist'[Len(hist')].v) ]_vars
ConfigValid == config \in Modes
\* write sets: which cells an operation may change
WriteSet(op) == IF op.op = "config" /\ op.v \in Modes THEN {"config"} ELSE IF op.op = "register" THEN {"registry"} ELSE {}
\* the registry only grows, and only through Register
RegistryDiscipline == [][ registry' # registry => (hist'[Len(hist')].op = "register" /\ registry' = registry \cup {hist'[Len(hist')].v}) ]_vars
=============================================================================
