------------------------------ MODULE Design_MC ------------------------------
(* Small-scope exploration of the Abs design function: every frame with N rows over small    *)
(* domains x every formula of a pool, one frame operation (row permutation, a missing cell    *)
(* with a policy), the build, and evaluation on row selections of the training frame.         *)
(* The action properties are the theorems C06/C08/C09 quote; Export writes every built design *)
(* and every evaluation for replay into formulae.                                             *)
EXTENDS Design, Json, IOUtils, CSV
CONSTANTS N, NF, NG, XFull, DoExport, NAOps, PermOps, MaxSel, UnseenOps, SubsetOps
XS == IF XFull THEN [1..N -> 1..3] ELSE {[r \in 1..N |-> r], [r \in 1..N |-> IF r = N THEN 1 ELSE 2]}
VARIABLES form, frame, policy, phase, opn, d, res
vars == <<form, frame, policy, phase, opn, d, res>>

T1(a) == <<a>>
Forms == {
  [id |-> 1,  txt |-> "y ~ x",               resp |-> "y", icpt |-> TRUE,  terms |-> << <<"x">> >>, groups |-> <<>>],
  [id |-> 2,  txt |-> "y ~ f",               resp |-> "y", icpt |-> TRUE,  terms |-> << <<"f">> >>, groups |-> <<>>],
  [id |-> 3,  txt |-> "y ~ 0 + f",           resp |-> "y", icpt |-> FALSE, terms |-> << <<"f">> >>, groups |-> <<>>],
  [id |-> 4,  txt |-> "y ~ g + f",           resp |-> "y", icpt |-> TRUE,  terms |-> << <<"g">>, <<"f">> >>, groups |-> <<>>],
  [id |-> 5,  txt |-> "y ~ f * g",           resp |-> "y", icpt |-> TRUE,  terms |-> << <<"f">>, <<"g">>, <<"f", "g">> >>, groups |-> <<>>],
  [id |-> 6,  txt |-> "y ~ x + f + f:x",     resp |-> "y", icpt |-> TRUE,  terms |-> << <<"x">>, <<"f">>, <<"f", "x">> >>, groups |-> <<>>],
  [id |-> 7,  txt |-> "y ~ 0 + x:z + z",     resp |-> "y", icpt |-> FALSE, terms |-> << <<"x", "z">>, <<"z">> >>, groups |-> <<>>],
  [id |-> 8,  txt |-> "y ~ x + (1|g)",       resp |-> "y", icpt |-> TRUE,  terms |-> << <<"x">> >>, groups |-> << [e |-> <<>>, g |-> <<"g">>] >>],
  [id |-> 9,  txt |-> "y ~ (x|g)",           resp |-> "y", icpt |-> TRUE,  terms |-> <<>>, groups |-> << [e |-> <<>>, g |-> <<"g">>], [e |-> <<"x">>, g |-> <<"g">>] >>],
  [id |-> 10, txt |-> "y ~ (0 + f|g)",       resp |-> "y", icpt |-> TRUE,  terms |-> <<>>, groups |-> << [e |-> <<"f">>, g |-> <<"g">>] >>],
  [id |-> 11, txt |-> "y ~ x + (f|g)",       resp |-> "y", icpt |-> TRUE,  terms |-> << <<"x">> >>, groups |-> << [e |-> <<>>, g |-> <<"g">>], [e |-> <<"f">>, g |-> <<"g">>] >>],
  [id |-> 12, txt |-> "y ~ (1|f:g) + (x|f)", resp |-> "y", icpt |-> TRUE,  terms |-> <<>>, groups |-> << [e |-> <<>>, g |-> <<"f", "g">>], [e |-> <<>>, g |-> <<"f">>], [e |-> <<"x">>, g |-> <<"f">>] >>],
  [id |-> 13, txt |-> "f ~ x",               resp |-> "f", icpt |-> TRUE,  terms |-> << <<"x">> >>, groups |-> <<>>],
  [id |-> 14, txt |-> "x:f + f",             resp |-> "",  icpt |-> TRUE,  terms |-> << <<"x", "f">>, <<"f">> >>, groups |-> <<>>],
  [id |-> 15, txt |-> "y ~ f/g",             resp |-> "y", icpt |-> TRUE,  terms |-> << <<"f">>, <<"f", "g">> >>, groups |-> <<>>],
  [id |-> 17, txt |-> "f[@2] ~ x",           resp |-> "f", sub |-> 2, icpt |-> TRUE, terms |-> << <<"x">> >>, groups |-> <<>>],
  [id |-> 18, txt |-> "f[@9] ~ x + g",       resp |-> "f", sub |-> 9, icpt |-> TRUE, terms |-> << <<"x">>, <<"g">> >>, groups |-> <<>>],
  [id |-> 16, txt |-> "y ~ (1|g) + (x|f)",   resp |-> "y", icpt |-> TRUE,  terms |-> <<>>, groups |-> << [e |-> <<>>, g |-> <<"g">>], [e |-> <<>>, g |-> <<"f">>], [e |-> <<"x">>, g |-> <<"f">>] >>]
}
\* formula 14: the scanner's implicit intercept; x:f with margin x absent and f present
\* formulas 17, 18: subset notation; @k stands for the name of level k of f (9: a level that never occurs)
\* formula 15: g nested in f (f full inside f:g, g reduced); formula 16: group terms of two different
\* factors, so that a new group of g shifts the slices of the terms of f

NumCol(v) == [kind |-> "num", v |-> v, decl |-> <<>>]
CatCol(v) == [kind |-> "cat", v |-> v, decl |-> <<>>]
Frames ==
  { [n |-> N,
     cols |-> [c \in {"y", "x", "z", "f", "g", "u"} |->
                 CASE c = "y" -> NumCol([r \in 1..N |-> 10 * r])
                   [] c = "x" -> NumCol(x)
                   [] c = "z" -> NumCol([r \in 1..N |-> r + 1])
                   [] c = "u" -> NumCol([r \in 1..N |-> 7])
                   [] c = "f" -> CatCol(f)
                   [] c = "g" -> CatCol(g)]]
    : x \in XS, f \in [1..N -> 1..NF], g \in [1..N -> 1..NG] }
Null == [status |-> "none"]
Init ==
  /\ form \in Forms /\ frame \in Frames
  /\ policy = "drop" /\ phase = "fresh" /\ opn = 0 /\ d = Null /\ res = Null

Perms == {p \in [1..N -> 1..N] : \A a, b \in 1..N : a # b => p[a] # p[b]}
Permute ==
  /\ PermOps /\ phase = "fresh" /\ opn = 0
  /\ \E p \in Perms : (\E r \in 1..N : p[r] # r) /\ frame' = TakeRows(frame, p)
  /\ opn' = 1 /\ UNCHANGED <<form, policy, phase, d, res>>
SetCell(fr, v, r, val) == [fr EXCEPT !.cols[v].v[r] = val]
MakeNA ==
  /\ NAOps /\ phase = "fresh" /\ opn = 0
  /\ \E c \in {<<"x", 1>>, <<"f", 2>>, <<"u", N>>, <<"y", N>>} :
       frame' = SetCell(frame, c[1], c[2], IF IsCat(frame, c[1]) THEN 0 ELSE NA)
  /\ policy' \in {"drop", "error", "pass"}
  /\ opn' = 2 /\ UNCHANGED <<form, phase, d, res>>
Build ==
  /\ phase = "fresh"
  /\ d' = Design(form, frame, policy)
  /\ phase' = "built" /\ UNCHANGED <<form, frame, policy, opn, res>>
Sels == UNION {[1..k -> 1..N] : k \in 1..MaxSel}
EvalSubset ==
  /\ SubsetOps /\ phase = "built" /\ d.status = "ok" /\ opn = 0 /\ form.resp # "f"
  /\ \E sel \in Sels :
       LET nf == TakeRows(frame, sel) IN
         res' = [status |-> "ok", sel |-> sel, common |-> EvalCommon(d, nf), group |-> EvalGroup(d, nf)]
  /\ phase' = "evaluated" /\ UNCHANGED <<form, frame, policy, opn, d>>
\* C10: new data with unseen levels: rows of the training frame in which the cells of one or two
\* variables are replaced by a level that never occurred (code 9), under each mode
TrainFrame == IF policy = "drop" /\ d.status = "ok" THEN TakeRows(frame, d.rows) ELSE frame
EvalUnseen ==
  /\ UnseenOps /\ phase = "built" /\ d.status = "ok" /\ opn = 0 /\ form.resp # "f"
  /\ \E sel \in Sels : \E vs \in {{"f"}, {"g"}, {"f", "g"}} : \E where \in {1, Len(sel)} : \E mode \in {"error", "warning", "silent"} :
       LET nf0 == TakeRows(frame, sel)
           nf == [nf0 EXCEPT !.cols = [c \in DOMAIN nf0.cols |->
                     IF c \in vs THEN [nf0.cols[c] EXCEPT !.v[where] = 9] ELSE nf0.cols[c]]]
       IN res' = [status |-> "unseen", sel |-> sel, vs |-> vs, where |-> where, mode |-> mode, newframe |-> nf,
                  common |-> EvalCommonMode(form, frame, d, nf, mode),
                  group |-> EvalGroupMode(form, frame, nf, mode)]
  /\ phase' = "evaluated" /\ UNCHANGED <<form, frame, policy, opn, d>>
Next == Permute \/ MakeNA \/ Build \/ EvalSubset \/ EvalUnseen
Spec == Init /\ [][Next]_vars

(* ---- theorems ---- *)
DD(fr, pol) == Design(form, fr, pol)
\* C08: permuting the rows permutes the rows of all three matrices and changes nothing else
PermEquivariant ==
  [][ (opn = 0 /\ opn' = 1) =>
        \E p \in Perms : frame' = TakeRows(frame, p) /\
          LET a == DD(frame, "drop") b == DD(frame', "drop") IN
            /\ b.common_labels = a.common_labels /\ b.group_labels = a.group_labels
            /\ b.resp_labels = a.resp_labels
            /\ b.common_slices = a.common_slices /\ b.group_slices = a.group_slices
            /\ b.common = PermuteRows(a.common, p) /\ b.group = PermuteRows(a.group, p)
            /\ b.resp = PermuteRows(a.resp, p) ]_vars
\* C09: drop == build on the frame without the incomplete rows; error iff an incomplete row
\* exists; pass keeps every row, complete rows as under drop
NATheorem ==
  [][ (opn = 0 /\ opn' = 2) =>
        LET bad == Incomplete(form, frame')
            keep == CompleteRows(form, frame')
            dr == DD(frame', "drop")
            er == DD(frame', "error")
            pa == DD(frame', "pass")
        IN /\ (keep # <<>>) => dr = [DD(TakeRows(frame', keep), "drop") EXCEPT !.rows = keep]
           /\ (er.status = "error") = (bad # {})
           /\ pa.status = "ok" /\ Len(pa.common) = N
           /\ (keep # <<>> /\ dr.status = "ok" /\ dr.common_labels = pa.common_labels) =>
                 PermuteRows(pa.common, keep) = dr.common
           /\ \A v \in {"u"} : TRUE ]_vars
\* ... and a missing value in a column the formula does not use changes nothing
UnusedIgnored ==
  [][ (opn = 0 /\ opn' = 2 /\ Incomplete(form, frame') = {}) =>
        \A pol \in {"drop", "error", "pass"} :
          LET a == DD(frame, pol) b == DD(frame', pol) IN
            a.status = b.status /\ a.common = b.common /\ a.group = b.group /\ a.rows = b.rows ]_vars
\* C06: new data made of rows of the training frame reproduces those rows of the training matrices
SubsetReproduces ==
  (phase = "evaluated" /\ res.status = "ok") =>
    /\ res.common = PermuteRows(d.common, res.sel)
    /\ res.group = PermuteRows(d.group, res.sel)
\* C10: in warning / silent mode every column involving a variable is zero on exactly the rows
\* holding an unseen level of it, and all other entries are what a seen level would give
InvolvesVar(lab, v) == \E k \in 1..Len(lab) : lab[k][1] = v
UnseenTheorem ==
  (phase = "evaluated" /\ res.status = "unseen") =>
    LET nf == res.newframe
        seen == TakeRows(frame, res.sel)      \* the same rows with their original (seen) levels
    IN /\ (res.mode = "error") => (res.common.status = "raise") = (UnseenRows(frame, nf, CommonVars(form)) # {})
       /\ (res.mode = "error") => (res.group.status = "raise") = (UnseenRows(frame, nf, GroupVars(form)) # {})
       /\ (res.common.status = "ok") =>
            \A r \in 1..nf.n : \A j \in 1..Len(d.common_labels) :
              LET lab == d.common_labels[j]
                  hit == \E v \in res.vs : InvolvesVar(lab, v) /\ Unseen(frame, nf, v, r)
              IN IF hit THEN res.common.common[r][j] = 0
                 ELSE res.common.common[r][j] = LabelVal(seen, lab, r)
       /\ (res.group.status = "ok") =>
            /\ Len(res.group.slices) = Len(form.groups)
            /\ \A k \in 1..Len(form.groups) :
                 LET gt == form.groups[k]
                     w0 == d.group_slices[k][2] - d.group_slices[k][1]
                     w1 == res.group.slices[k][2] - res.group.slices[k][1]
                     nr == UnseenRows(frame, nf, Range(gt.g))
                 IN w1 = w0 + (IF nr = {} THEN 0 ELSE w0 \div Len(GroupCells(frame, gt.g)))
            /\ \A r \in 1..nf.n : \A k \in 1..Len(form.groups) :
                 \* a row of an unseen group is zero in every training block of that factor
                 (r \in UnseenRows(frame, nf, Range(form.groups[k].g))) =>
                    \A j \in (res.group.slices[k][1] + 1)..(res.group.slices[k][1] + (d.group_slices[k][2] - d.group_slices[k][1])) :
                       res.group.group[r][j] = 0

\* C04/C17: as many labels as columns, labels unique, slices partition the columns in term order
Shape(dd) ==
  dd.status = "ok" =>
    /\ \A r \in 1..Len(dd.common) : Len(dd.common[r]) = Len(dd.common_labels)
    /\ \A r \in 1..Len(dd.group) : Len(dd.group[r]) = Len(dd.group_labels)
    /\ Cardinality(Range(dd.common_labels)) = Len(dd.common_labels)
    /\ Cardinality(Range(dd.group_labels)) = Len(dd.group_labels)
    /\ Len(dd.common) = Len(dd.rows) /\ Len(dd.group) = Len(dd.rows) /\ Len(dd.resp) = Len(dd.rows)
    /\ LET sl == dd.common_slices IN
         (sl # <<>>) => (sl[1][1] = 0 /\ sl[Len(sl)][2] = Len(dd.common_labels)
                         /\ \A k \in 1..(Len(sl) - 1) : sl[k][2] = sl[k + 1][1])
    /\ LET sl == dd.group_slices IN
         (sl # <<>>) => (sl[1][1] = 0 /\ sl[Len(sl)][2] = Len(dd.group_labels)
                         /\ \A k \in 1..(Len(sl) - 1) : sl[k][2] = sl[k + 1][1])
ShapeOK == phase \in {"built", "evaluated"} => Shape(d)
\* C05: every row of a group block is non-zero only in the slots of its own group
GroupBlock ==
  (phase = "built" /\ d.status = "ok") =>
    \A r \in 1..Len(d.group) : \A j \in 1..Len(d.group_labels) :
      d.group[r][j] \notin {0, NA} => \A k \in 1..Len(d.group_labels[j][2]) :
        LET gp == d.group_labels[j][2][k]
            fr == IF policy = "drop" THEN TakeRows(frame, d.rows) ELSE frame
        IN Cell(fr, gp[1], r) = gp[2]

Case ==
  [form |-> form.id, txt |-> form.txt, frame |-> frame, policy |-> policy, opn |-> opn, d |-> d,
   phase |-> phase, res |-> res]
Export == (DoExport /\ phase \in {"built", "evaluated"})
            => CSVWrite("%1$s", <<ToJson(Case)>>, IOEnv.FV_OUT)
=============================================================================
