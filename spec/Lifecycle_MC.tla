---------------------------- MODULE Lifecycle_MC ----------------------------
EXTENDS Lifecycle, Json, IOUtils, CSV
CONSTANT DoExport
\* every maximal history is a schedule for the harness
Export == (DoExport /\ Len(hist) = MaxLen) => CSVWrite("%1$s", <<ToJson([hist |-> hist])>>, IOEnv.FV_OUT)
=============================================================================
