-------------------------- MODULE TermAlgebra_Trace --------------------------
(* Judge for recorded model descriptions (C->S).  One event per line of FV_TRACE:            *)
(*   id, f (right-hand side tree, bottom = the implicit '1'), exc (model_description raised),  *)
(*   icpt, terms (list of factor lists), groups (list of [effect factors, grouping factors]), *)
(*   neg (a NegatedIntercept was left in the model).                                          *)
(* The Abs denotation is computed here, from the tree, never taken from the harness.          *)
EXTENDS TermAlgebra, Json, IOUtils
AtomOrderDef == <<"a", "b", "c", "d", "F", "H", "Q", "K", "L", "M", "N", "O", "P", "R", "S", "U", "V", "W", "g", "h", "k">>
VARIABLES i, nbad
Ev == ndJsonDeserialize(IOEnv.FV_TRACE)
SetOf(s) == {s[k] : k \in 1..Len(s)}
Clause(e) ==
  LET d == Den(e.f) IN
  IF ~InDomain(e.f) \/ OrderSensitive(e.f) THEN "ood"
  ELSE IF e.exc THEN "exception_on_documented_formula"
  ELSE IF e.neg THEN "negated_intercept_left_in_model"
  ELSE IF e.icpt # d.icpt THEN "intercept_differs"
  ELSE IF {SetOf(t) : t \in SetOf(e.terms)} # d.terms THEN "terms_differ"
  ELSE IF {<<SetOf(g[1]), SetOf(g[2])>> : g \in SetOf(e.groups)} # d.groups THEN "group_terms_differ"
  ELSE "none"
Drift(e) ==
  LET v == ImplDen(IEval(e.f, TermBySet)) IN
    v.exc # e.exc \/ (~e.exc /\ (v.icpt # e.icpt \/ v.terms # {SetOf(t) : t \in SetOf(e.terms)}
                                \/ v.groups # {<<SetOf(g[1]), SetOf(g[2])>> : g \in SetOf(e.groups)}))
Init == i = 1 /\ nbad = 0
Step ==
  /\ i <= Len(Ev)
  /\ LET c == Clause(Ev[i]) IN
       /\ (c = "ood") => PrintT(<<"FV", "ood", Ev[i].id>>)
       /\ (c \notin {"none", "ood"}) => PrintT(<<"FV", "bad", Ev[i].id, c, LateLiteral(Ev[i].f), MulEqualModels(Ev[i].f)>>)
       /\ Drift(Ev[i]) => PrintT(<<"FV", "drift", Ev[i].id>>)
       /\ nbad' = IF c \in {"none", "ood"} THEN nbad ELSE nbad + 1
  /\ i' = i + 1
Spec == Init /\ [][Step]_<<i, nbad>>
Consumed == TLCGet("stats").diameter = Len(Ev) + 1 /\ PrintT(<<"FV", "done", Len(Ev)>>)
=============================================================================
