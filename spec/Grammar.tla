------------------------------- MODULE Grammar -------------------------------
(***************************************************************************)
(* Tokens -> tree.  Property C01 (and the tree part of C12/C15).           *)
(*                                                                         *)
(* Abs layer: the stratified grammar of the property statement             *)
(*   ~ < | < comparisons < + - < * / < : < ** < unary sign < call < atom,  *)
(*   binary operators left-associative, '~' non-associative,               *)
(* given twice and independently:                                          *)
(*   (a) Valid(t) / Yield(t): a tree is a grammar tree of a token string   *)
(*       iff every node respects the level of its children and its yield   *)
(*       is the whole string (linear; used to judge recorded parses);      *)
(*   (b) T(ts, L, i, j): the SET of grammar trees of ts[i..j] by split     *)
(*       points (CYK style; used for short strings: membership, and        *)
(*       unambiguity = at most one tree).                                  *)
(* TLC checks (a) and (b) against each other and the Impl layer against    *)
(* both on every token string up to MaxLen.                                *)
(*                                                                         *)
(* Impl layer: formulae/parser.py transcribed method by method             *)
(* (P(ts,cur,L): L=0 assignment/expression, 1 tilde, 2 random_effect,      *)
(* 3 comparison, 4 addition, 5 multiplication, 6 interaction,              *)
(* 7 multiple_interaction, 8 unary, 9 call(+finishcall), 10 primary) and   *)
(* Parser.parse with its end-of-input test (constant EofCheck: FALSE       *)
(* models the pinned tree, which returned after one expression).           *)
(***************************************************************************)
EXTENDS Naturals, Sequences, FiniteSets, TLC

Atoms  == {"IDENTIFIER", "NUMBER", "STRING", "BQNAME", "PYTHON_LITERAL"}
CmpOps == {"EQUAL_EQUAL", "BANG_EQUAL", "LESS_EQUAL", "LESS", "GREATER_EQUAL", "GREATER"}

BinLevel(op) ==
  CASE op = "TILDE" -> 1
    [] op = "PIPE" -> 2
    [] op \in CmpOps -> 3
    [] op \in {"PLUS", "MINUS"} -> 4
    [] op \in {"STAR", "SLASH"} -> 5
    [] op = "COLON" -> 6
    [] op = "STAR_STAR" -> 7
    [] OTHER -> 99

IdAtom == <<"atom", "IDENTIFIER">>

(* ------------------------------ Abs (a): Valid / Yield ------------------ *)

Level(t) ==
  CASE t[1] = "assign" -> 0
    [] t[1] = "bin" -> BinLevel(t[2])
    [] t[1] = "un" -> 8
    [] t[1] = "call" -> IF t[4] THEN 10 ELSE 9
    [] OTHER -> 10

IsTarget(t) == t[1] = "sub" \/ t = IdAtom

RECURSIVE Valid(_)
Valid(t) ==
  CASE t[1] = "atom" -> t[2] \in Atoms
    [] t[1] = "sub" -> Valid(t[2]) /\ Level(t[2]) >= 10
    [] t[1] = "grp" -> Valid(t[2])
    [] t[1] = "call" ->
         /\ Valid(t[2])
         /\ Level(t[2]) >= 9
         /\ \A k \in 1..Len(t[3]) : Valid(t[3][k])
         /\ t[4] => (Len(t[3]) = 1 /\ t[2] = IdAtom)
    [] t[1] = "un" -> t[2] \in {"PLUS", "MINUS"} /\ Valid(t[3]) /\ Level(t[3]) >= 8
    [] t[1] = "bin" ->
         LET L == BinLevel(t[2]) IN
           /\ L \in 1..7
           /\ Valid(t[3]) /\ Valid(t[4])
           /\ IF L = 1 THEN Level(t[3]) >= 2 /\ Level(t[4]) >= 2
                       ELSE Level(t[3]) >= L /\ Level(t[4]) >= L + 1
    [] t[1] = "assign" -> IsTarget(t[2]) /\ Valid(t[2]) /\ Valid(t[3]) /\ Level(t[3]) >= 1
    [] OTHER -> FALSE

(* The yield of t, given that it starts at position pos of ts.  The position is only used to   *)
(* tell '{ e }' from 'I ( e )', which the code maps to the same node (flag t[4]).              *)
RECURSIVE Yield(_, _, _), YieldArgs(_, _, _, _)
Yield(t, pos, ts) ==
  CASE t[1] = "atom" -> <<t[2]>>
    [] t[1] = "sub" -> <<"IDENTIFIER", "LEFT_BRACKET">> \o Yield(t[2], pos + 2, ts) \o <<"RIGHT_BRACKET">>
    [] t[1] = "grp" -> <<"LEFT_PAREN">> \o Yield(t[2], pos + 1, ts) \o <<"RIGHT_PAREN">>
    [] t[1] = "call" ->
         IF t[4] /\ pos <= Len(ts) /\ ts[pos] = "LEFT_BRACE"
         THEN <<"LEFT_BRACE">> \o Yield(t[3][1], pos + 1, ts) \o <<"RIGHT_BRACE">>
         ELSE LET c == Yield(t[2], pos, ts) IN
                c \o <<"LEFT_PAREN">> \o YieldArgs(t[3], 1, pos + Len(c) + 1, ts) \o <<"RIGHT_PAREN">>
    [] t[1] = "un" -> <<t[2]>> \o Yield(t[3], pos + 1, ts)
    [] t[1] = "bin" -> LET l == Yield(t[3], pos, ts) IN l \o <<t[2]>> \o Yield(t[4], pos + Len(l) + 1, ts)
    [] t[1] = "assign" -> LET l == Yield(t[2], pos, ts) IN l \o <<"EQUAL">> \o Yield(t[3], pos + Len(l) + 1, ts)
    [] OTHER -> <<"?">>
YieldArgs(args, k, pos, ts) ==
  IF k > Len(args) THEN <<>>
  ELSE LET a == Yield(args[k], pos, ts) IN
         IF k = Len(args) THEN a
         ELSE a \o <<"COMMA">> \o YieldArgs(args, k + 1, pos + Len(a) + 1, ts)

\* t is a grammar tree of the whole token string ts
IsTreeOf(t, ts) == Valid(t) /\ Yield(t, 1, ts) = ts

\* Grouping nodes removed: what "redundant parentheses never change the model" compares
RECURSIVE Strip(_), StripArgs(_, _)
Strip(t) ==
  CASE t[1] = "grp" -> Strip(t[2])
    [] t[1] = "sub" -> <<"sub", Strip(t[2])>>
    [] t[1] = "call" -> <<"call", Strip(t[2]), StripArgs(t[3], 1), t[4]>>
    [] t[1] = "un" -> <<"un", t[2], Strip(t[3])>>
    [] t[1] = "bin" -> <<"bin", t[2], Strip(t[3]), Strip(t[4])>>
    [] t[1] = "assign" -> <<"assign", Strip(t[2]), Strip(t[3])>>
    [] OTHER -> t
StripArgs(args, k) == IF k > Len(args) THEN <<>> ELSE <<Strip(args[k])>> \o StripArgs(args, k + 1)

(* ------------------------------ Abs (b): the set of trees ---------------- *)

RECURSIVE T(_, _, _, _), A1(_, _, _)
T(ts, L, i, j) ==
  IF i > j THEN {}
  ELSE
  CASE L = 0 ->
         T(ts, 1, i, j) \cup
         UNION { { <<"assign", tg, v>> : tg \in {x \in T(ts, 10, i, k - 1) : IsTarget(x)},
                                          v \in T(ts, 1, k + 1, j) }
                 : k \in {k \in (i + 1)..(j - 1) : ts[k] = "EQUAL"} }
    [] L = 1 ->
         T(ts, 2, i, j) \cup
         UNION { { <<"bin", "TILDE", l, r>> : l \in T(ts, 2, i, k - 1), r \in T(ts, 2, k + 1, j) }
                 : k \in {k \in (i + 1)..(j - 1) : ts[k] = "TILDE"} }
    [] L \in 2..7 ->
         T(ts, L + 1, i, j) \cup
         UNION { { <<"bin", ts[k], l, r>> : l \in T(ts, L, i, k - 1), r \in T(ts, L + 1, k + 1, j) }
                 : k \in {k \in (i + 1)..(j - 1) : BinLevel(ts[k]) = L} }
    [] L = 8 ->
         T(ts, 9, i, j) \cup
         (IF ts[i] \in {"PLUS", "MINUS"} THEN { <<"un", ts[i], r>> : r \in T(ts, 8, i + 1, j) } ELSE {})
    [] L = 9 ->
         T(ts, 10, i, j) \cup
         (IF ts[j] = "RIGHT_PAREN"
          THEN UNION { { <<"call", c, a, FALSE>> : c \in T(ts, 9, i, k - 1),
                                                     a \in (IF k + 1 > j - 1 THEN {<<>>} ELSE A1(ts, k + 1, j - 1)) }
                       : k \in {k \in (i + 1)..(j - 1) : ts[k] = "LEFT_PAREN"} }
          ELSE {})
    [] OTHER ->
         (IF i = j /\ ts[i] \in Atoms THEN { <<"atom", ts[i]>> } ELSE {})
         \cup (IF j >= i + 3 /\ ts[i] = "IDENTIFIER" /\ ts[i + 1] = "LEFT_BRACKET" /\ ts[j] = "RIGHT_BRACKET"
               THEN { <<"sub", x>> : x \in T(ts, 10, i + 2, j - 1) } ELSE {})
         \cup (IF j >= i + 2 /\ ts[i] = "LEFT_PAREN" /\ ts[j] = "RIGHT_PAREN"
               THEN { <<"grp", e>> : e \in T(ts, 0, i + 1, j - 1) } ELSE {})
         \cup (IF j >= i + 2 /\ ts[i] = "LEFT_BRACE" /\ ts[j] = "RIGHT_BRACE"
               THEN { <<"call", IdAtom, <<e>>, TRUE>> : e \in T(ts, 0, i + 1, j - 1) } ELSE {})
\* non-empty comma separated argument lists spanning ts[i..j]
A1(ts, i, j) ==
  IF i > j THEN {}
  ELSE { <<e>> : e \in T(ts, 0, i, j) } \cup
       UNION { { <<e>> \o rest : e \in T(ts, 0, i, k - 1), rest \in A1(ts, k + 1, j) }
               : k \in {k \in (i + 1)..(j - 1) : ts[k] = "COMMA"} }

Trees(ts) == T(ts, 0, 1, Len(ts))
InLanguage(ts) == Trees(ts) # {}

(* ------------------------------ Impl: formulae/parser.py ---------------- *)

CONSTANT EofCheck   \* TRUE: Parser.parse refuses left-over tokens (the repaired tree)

Fail == [ok |-> FALSE, cur |-> 0, t |-> <<>>]
Ok(cur, t) == [ok |-> TRUE, cur |-> cur, t |-> t]
\* Parser.check: never true at EOF
Check(ts, cur, kinds) == ts[cur] # "EOF" /\ ts[cur] \in kinds
OpsAt(L) ==
  CASE L = 2 -> {"PIPE"}
    [] L = 3 -> CmpOps
    [] L = 4 -> {"PLUS", "MINUS"}
    [] L = 5 -> {"STAR", "SLASH"}
    [] L = 6 -> {"COLON"}
    [] L = 7 -> {"STAR_STAR"}
    [] OTHER -> {}

RECURSIVE P(_, _, _), PBinLoop(_, _, _), PCallLoop(_, _), PArgs(_, _, _)
P(ts, cur, L) ==
  CASE L = 0 ->  \* expression / assignment
         LET e == P(ts, cur, 1) IN
           IF ~e.ok THEN Fail
           ELSE IF Check(ts, e.cur, {"EQUAL"})
                THEN LET r == P(ts, e.cur + 1, 4) IN
                       IF ~r.ok THEN Fail
                       ELSE IF IsTarget(e.t) THEN Ok(r.cur, <<"assign", e.t, r.t>>) ELSE Fail
                ELSE e
    [] L = 1 ->  \* tilde: right operand is an addition
         LET e == P(ts, cur, 2) IN
           IF ~e.ok THEN Fail
           ELSE IF Check(ts, e.cur, {"TILDE"})
                THEN LET r == P(ts, e.cur + 1, 4) IN
                       IF ~r.ok THEN Fail ELSE Ok(r.cur, <<"bin", "TILDE", e.t, r.t>>)
                ELSE e
    [] L \in 2..7 ->  \* random_effect .. multiple_interaction: the same left-associative loop
         LET l == P(ts, cur, L + 1) IN IF ~l.ok THEN Fail ELSE PBinLoop(ts, l, L)
    [] L = 8 ->  \* unary
         IF Check(ts, cur, {"PLUS", "MINUS"})
         THEN LET r == P(ts, cur + 1, 8) IN IF ~r.ok THEN Fail ELSE Ok(r.cur, <<"un", ts[cur], r.t>>)
         ELSE P(ts, cur, 9)
    [] L = 9 ->  \* call
         LET e == P(ts, cur, 10) IN IF ~e.ok THEN Fail ELSE PCallLoop(ts, e)
    [] OTHER ->  \* primary
         IF Check(ts, cur, {"IDENTIFIER"})
         THEN IF Check(ts, cur + 1, {"LEFT_BRACKET"})
              THEN LET lv == P(ts, cur + 2, 10) IN
                     IF ~lv.ok THEN Fail
                     ELSE IF lv.t[1] = "atom" /\ lv.t[2] \in {"NUMBER", "PYTHON_LITERAL"} THEN Fail
                     ELSE IF lv.t[1] = "sub" THEN Fail
                     ELSE IF Check(ts, lv.cur, {"RIGHT_BRACKET"})
                          THEN Ok(lv.cur + 1, <<"sub", lv.t>>) ELSE Fail
              ELSE Ok(cur + 1, IdAtom)
         ELSE IF Check(ts, cur, Atoms) THEN Ok(cur + 1, <<"atom", ts[cur]>>)
         ELSE IF Check(ts, cur, {"LEFT_PAREN"})
              THEN LET e == P(ts, cur + 1, 0) IN
                     IF e.ok /\ Check(ts, e.cur, {"RIGHT_PAREN"}) THEN Ok(e.cur + 1, <<"grp", e.t>>) ELSE Fail
         ELSE IF Check(ts, cur, {"LEFT_BRACE"})
              THEN LET e == P(ts, cur + 1, 0) IN
                     IF e.ok /\ Check(ts, e.cur, {"RIGHT_BRACE"})
                     THEN Ok(e.cur + 1, <<"call", IdAtom, <<e.t>>, TRUE>>) ELSE Fail
         ELSE Fail
PBinLoop(ts, acc, L) ==
  IF Check(ts, acc.cur, OpsAt(L))
  THEN LET r == P(ts, acc.cur + 1, L + 1) IN
         IF ~r.ok THEN Fail ELSE PBinLoop(ts, Ok(r.cur, <<"bin", ts[acc.cur], acc.t, r.t>>), L)
  ELSE acc
PCallLoop(ts, e) ==
  IF Check(ts, e.cur, {"LEFT_PAREN"})
  THEN \* finishcall
       IF Check(ts, e.cur + 1, {"RIGHT_PAREN"})
       THEN PCallLoop(ts, Ok(e.cur + 2, <<"call", e.t, <<>>, FALSE>>))
       ELSE LET a == PArgs(ts, e.cur + 1, <<>>) IN
              IF a.ok /\ Check(ts, a.cur, {"RIGHT_PAREN"})
              THEN PCallLoop(ts, Ok(a.cur + 1, <<"call", e.t, a.t, FALSE>>)) ELSE Fail
  ELSE e
PArgs(ts, cur, acc) ==
  LET a == P(ts, cur, 0) IN
    IF ~a.ok THEN Fail
    ELSE IF Check(ts, a.cur, {"COMMA"}) THEN PArgs(ts, a.cur + 1, Append(acc, a.t))
    ELSE Ok(a.cur, Append(acc, a.t))

\* Parser(tokens).parse() on ts followed by the EOF token
ImplParse(ts) ==
  LET te == ts \o <<"EOF">>
      r == P(te, 1, 0)
  IN IF r.ok /\ (EofCheck => te[r.cur] = "EOF") THEN r ELSE Fail

=============================================================================
